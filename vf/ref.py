"""Reference models typed from the textbook / format definitions.

Nothing here imports pmutt formulas.  Physical constants are passed in by the
callers (they take them from pmutt.constants, whose values C12 judges).
"""
import math

import numpy as np


# --- NASA-7 --------------------------------------------------------------------
def nasa7_terms(a, T):
    """(Cp/R terms, H/RT terms, S/R terms) as lists so callers can form the scale."""
    cp = [a[0], a[1] * T, a[2] * T ** 2, a[3] * T ** 3, a[4] * T ** 4]
    h = [a[0], a[1] * T / 2, a[2] * T ** 2 / 3, a[3] * T ** 3 / 4, a[4] * T ** 4 / 5, a[5] / T]
    s = [a[0] * math.log(T), a[1] * T, a[2] * T ** 2 / 2, a[3] * T ** 3 / 3, a[4] * T ** 4 / 4, a[6]]
    return cp, h, s


# --- NASA-9 --------------------------------------------------------------------
def nasa9_terms(a, T):
    cp = [a[0] / T ** 2, a[1] / T, a[2], a[3] * T, a[4] * T ** 2, a[5] * T ** 3, a[6] * T ** 4]
    h = [-a[0] / T ** 2, a[1] * math.log(T) / T, a[2], a[3] * T / 2, a[4] * T ** 2 / 3, a[5] * T ** 3 / 4,
         a[6] * T ** 4 / 5, a[7] / T]
    s = [-a[0] / (2 * T ** 2), -a[1] / T, a[2] * math.log(T), a[3] * T, a[4] * T ** 2 / 2, a[5] * T ** 3 / 3,
         a[6] * T ** 4 / 4, a[8]]
    return cp, h, s


# --- Shomate (NIST webbook form; Cp, S in <unit>, H in kilo-<unit> K) ------------
def shomate_terms(a, T, R_unit):
    t = T / 1000.0
    cp = [a[0], a[1] * t, a[2] * t ** 2, a[3] * t ** 3, a[4] / t ** 2]
    h = [a[0] * t, a[1] * t ** 2 / 2, a[2] * t ** 3 / 3, a[3] * t ** 4 / 4, -a[4] / t, a[5]]
    s = [a[0] * math.log(t), a[1] * t, a[2] * t ** 2 / 2, a[3] * t ** 3 / 3, -a[4] / (2 * t ** 2), a[6]]
    cp = [x / R_unit for x in cp]
    h = [x * 1000.0 / (R_unit * T) for x in h]
    s = [x / R_unit for x in s]
    return cp, h, s


def tsum(terms):
    return math.fsum(terms), math.fsum(abs(x) for x in terms)


# --- numerical derivative -------------------------------------------------------
def richardson(f, x, h):
    """Central difference with steps h and h/2, Richardson-extrapolated.
    Returns (estimate, |d(h) - d(h/2)|) so callers can judge conditioning."""
    d1 = (f(x + h) - f(x - h)) / (2 * h)
    d2 = (f(x + h / 2) - f(x - h / 2)) / h
    return (4 * d2 - d1) / 3.0, abs(d1 - d2)


# --- statistical mechanics closed forms (per mole, dimensionless) ----------------
def harmonic(theta_list, T):
    """theta = h c nu / kB for each retained mode -> dict of q (ZPE included), U/RT, Cv/R, S/R, ZPE/kT."""
    lnq = 0.0
    U = Cv = S = zpe = 0.0
    for th in theta_list:
        x = th / T
        em = math.exp(-x)
        lnq += -x / 2 - math.log1p(-em)
        U += x / 2 + x * em / (-math.expm1(-x))
        Cv += x * x * em / (math.expm1(-x)) ** 2
        S += x * em / (-math.expm1(-x)) - math.log1p(-em)
        zpe += x / 2
    return {'lnq': lnq, 'U': U, 'Cv': Cv, 'S': S, 'zpe': zpe}


def debye3(x, n=4000):
    """D3(x) = 3/x^3 int_0^x t^3/(e^t - 1) dt by composite Gauss-Legendre (own quadrature)."""
    if x == 0:
        return 1.0
    nodes, weights = np.polynomial.legendre.leggauss(20)
    panels = 64
    total = 0.0
    for p in range(panels):
        a = x * p / panels
        b = x * (p + 1) / panels
        t = 0.5 * (b - a) * nodes + 0.5 * (b + a)
        with np.errstate(all='ignore'):
            ft = np.where(t > 0, t ** 3 / np.expm1(t), 0.0)
        total += 0.5 * (b - a) * float(np.dot(weights, ft))
    return 3.0 * total / x ** 3

"""Dispatcher: ./check <PID> quick|thorough | ./check <PID> --replay <file>

exit 0  property held on everything explored (KNOWN-FINDING lines allowed)
exit 1  at least one `VIOLATION property=<id> replay=<path>` line was printed
exit 2  harness error (never a VIOLATION)
"""
import importlib
import json
import multiprocessing as mp
import os
import sys
import time
import traceback

sys.path.insert(0, os.path.dirname(os.path.dirname(os.path.abspath(__file__))))

from vf import core  # noqa: E402

NPROC = int(os.environ.get('VERIF_NPROC', '16'))
THOROUGH_SHARDS = int(os.environ.get('VERIF_SHARDS', '16'))
# scratch runs against mutated copies of the repository write elsewhere
OUT = os.environ.get('VERIF_OUT') or core.ROOT


def load(pid):
    mod = importlib.import_module('vf.p%s' % pid[1:])
    return mod


def _task(args):
    pid, ci, tier, shard, nshards, seed = args
    try:
        mod = load(pid)
        clause = mod.CLAUSES[ci]
        known = core.Known(pid)
        rec = core.Recorder()
        t0 = time.time()
        if clause.enumerate is not None:
            found = core.run_enumerated(clause, tier, shard, nshards, known, rec)
        else:
            n = clause.quick if tier == 'quick' else clause.thorough
            budget = clause.budget_s[0 if tier == 'quick' else 1]
            found = core.run_clause(clause, n, core.derive_seed(seed, shard), known, rec,
                                    deadline=t0 + budget)
        hits = {i: known.hits[id(e)] for i, e in enumerate(known.known)}
        return ('ok', ci, shard, rec, found, hits, time.time() - t0)
    except core.HarnessError as e:
        return ('harness', ci, shard, str(e), None, None, 0)
    except Exception:
        return ('harness', ci, shard, traceback.format_exc(), None, None, 0)


def write_replay(pid, clause_name, sig, case, detail):
    d = os.path.join(OUT, 'replays')
    os.makedirs(d, exist_ok=True)
    h = core.jhash([clause_name, sig, case])
    path = os.path.join(d, '%s-%s-%s.json' % (pid, clause_name.split('.', 1)[-1], h))
    with open(path, 'w') as f:
        json.dump({'property': pid, 'clause': clause_name, 'signature': sig,
                   'detail': detail, 'case': case}, f, indent=1, sort_keys=True)
    return os.path.relpath(path, core.ROOT) if OUT == core.ROOT else path


def find_clause(mod, name):
    for c in mod.CLAUSES:
        if c.name == name:
            return c
    raise core.HarnessError('no clause %s' % name)


def saved_inputs(pid):
    """Committed regression descriptors: regress/<PID>/*.json (must pass)."""
    d = os.path.join(core.ROOT, 'regress', pid)
    out = []
    if os.path.isdir(d):
        for fn in sorted(os.listdir(d)):
            if fn.endswith('.json'):
                with open(os.path.join(d, fn)) as f:
                    out.append((fn, json.load(f)))
    return out


def run_fuzz(pid, mod, seed, known, violations):
    """atheris campaigns for the clauses named in mod.FUZZ = [(clause, runs per worker, workers)].  If atheris is not
    installed the tier is skipped and says so (never a violation)."""
    import shutil
    import subprocess
    import tempfile
    report = []
    try:
        sys.path.insert(0, os.path.join(core.ROOT, '.deps'))
        import atheris  # noqa: F401
    except Exception as e:
        return [{'skipped': 'atheris not importable: %s' % e}]
    base = tempfile.mkdtemp(prefix='vf-fuzz-')
    try:
        procs = []
        for cname, runs, workers in mod.FUZZ:
            for w in range(workers):
                out = os.path.join(base, '%s-%d' % (cname, w))
                cmd = [sys.executable, '-W', 'ignore', '-m', 'vf.fuzz', pid, cname, str(runs),
                       str(core.derive_seed(seed, cname, w) % (2 ** 31 - 1) + 1), out]
                procs.append((cname, w, out, subprocess.Popen(cmd, cwd=core.ROOT, stdout=subprocess.DEVNULL,
                                                              stderr=subprocess.PIPE, text=True)))
        for cname, w, out, p in procs:
            try:
                _, err = p.communicate(timeout=3000)
            except subprocess.TimeoutExpired:
                p.kill()
                _, err = p.communicate()
            st = {}
            try:
                with open(os.path.join(out, 'stats.json')) as f:
                    st = json.load(f)
            except Exception:
                st = {'error': 'no stats written', 'stderr_tail': (err or '')[-300:]}
            cov = [ln for ln in (err or '').splitlines() if 'cov:' in ln]
            st['worker'] = w
            st['libfuzzer_last'] = cov[-1].strip() if cov else None
            v = st.get('violation')
            if v:
                with open(v['replay']) as f:
                    rp = json.load(f)
                # confirm outside the fuzzer with the plain regression path before reporting
                unknown, _, _ = core.replay_case(find_clause(mod, cname), rp['case'], known)
                if unknown and not any(x[0] == unknown[0].sig for x in violations):
                    path = write_replay(pid, cname, unknown[0].sig, rp['case'], unknown[0].detail)
                    violations.append((unknown[0].sig, path, unknown[0].detail))
                st['violation'] = {'signature': v['signature'], 'confirmed_by_replay': bool(unknown)}
            report.append(st)
    finally:
        shutil.rmtree(base, ignore_errors=True)
    return report


def main(argv):
    if len(argv) < 3:
        print(__doc__)
        return 2
    pid = argv[1]
    mod = load(pid)
    known = core.Known(pid)
    seed = int(os.environ.get('VERIF_SEED', '1') or '1')

    if argv[2] == '--replay':
        with open(argv[3]) as f:
            rp = json.load(f)
        clause = find_clause(mod, rp['clause'])
        unknown, hit, ctx = core.replay_case(clause, rp['case'], known)
        for e in hit:
            print('KNOWN-FINDING: property=%s %s' % (pid, e['what']))
        if unknown:
            for f_ in unknown:
                print('  %s: %s' % (f_.sig, f_.detail))
            print('VIOLATION property=%s replay=%s' % (pid, argv[3]))
            return 1
        print('replay passes: %s' % argv[3])
        return 0

    tier = argv[2]
    if tier not in ('quick', 'thorough'):
        print(__doc__)
        return 2
    t0 = time.time()
    violations = []   # (sig, relpath, detail)
    rec = core.Recorder()
    replayed = 0

    # --- tier 0: saved inputs (known/fixed witnesses, regress/) ------------
    gone = []
    for e in known.entries:
        w = e.get('witness')
        if w is None:
            continue
        clause = find_clause(mod, e['clause'])
        unknown, hit, ctx = core.replay_case(clause, w, known)
        replayed += 1
        if e['status'] == 'known':
            if any(h is e for h in hit):
                known.hits[id(e)] += 1
            else:
                gone.append(e)
        for f_ in unknown:
            path = write_replay(pid, clause.name, f_.sig, w, f_.detail)
            violations.append((f_.sig, path, f_.detail))
    for fn, rp in saved_inputs(pid):
        clause = find_clause(mod, rp['clause'])
        unknown, hit, ctx = core.replay_case(clause, rp['case'], known)
        replayed += 1
        for f_ in unknown:
            path = write_replay(pid, clause.name, f_.sig, rp['case'], f_.detail)
            violations.append((f_.sig, path, f_.detail))

    # --- generated tier ----------------------------------------------------
    tasks = []
    for ci, clause in enumerate(mod.CLAUSES):
        nsh = THOROUGH_SHARDS if tier == 'thorough' else getattr(clause, 'quick_shards', 1)
        for s in range(nsh):
            tasks.append((pid, ci, tier, s, nsh, seed))
    harness_errors = []
    clause_wall = {}
    if tasks:
        ctxm = mp.get_context('fork')
        with ctxm.Pool(min(NPROC, len(tasks))) as pool:
            for res in pool.imap_unordered(_task, tasks):
                status, ci, shard = res[0], res[1], res[2]
                cname = mod.CLAUSES[ci].name
                if status == 'harness':
                    harness_errors.append((cname, shard, res[3]))
                    continue
                _, _, _, r, found, hits, wall = res
                rec.merge(r)
                clause_wall[cname] = max(clause_wall.get(cname, 0), wall)
                for i, n in hits.items():
                    known.hits[id(known.known[i])] += n
                for sig, case, detail in found:
                    if any(v[0] == sig for v in violations):
                        continue
                    path = write_replay(pid, cname, sig, case, detail)
                    violations.append((sig, path, detail))

    # --- coverage-guided tier (atheris / libFuzzer), thorough only ---------------
    fuzz_report = []
    if tier == 'thorough' and getattr(mod, 'FUZZ', None):
        fuzz_report = run_fuzz(pid, mod, seed, known, violations)

    if harness_errors:
        for cname, shard, msg in harness_errors:
            print('HARNESS-ERROR clause=%s shard=%s\n%s' % (cname, shard, msg))
        return 2

    # --- report ------------------------------------------------------------
    for e in known.known:
        print('KNOWN-FINDING: property=%s %s [signature=%s hits=%d]' % (
            pid, e['what'], e['signature'], known.hits[id(e)]))
    for e in gone:
        print('NOTE: known finding no longer reproduced by its witness: %s' % e['signature'])
    for sig, path, detail in violations:
        print('  %s: %s' % (sig, detail))
        print('VIOLATION property=%s replay=%s' % (pid, path))

    per_clause = {}
    samples = []
    evaluations = replayed
    nontriv = 0
    rules = []
    for clause in mod.CLAUSES:
        c = rec.clauses.get(clause.name)
        if c is None:
            continue
        evaluations += c['cases']
        nontriv += len(c['nontrivial_hashes'])
        per_clause[clause.name] = {
            'cases': c['cases'], 'distinct': len(c['hashes']),
            'distinct_nontrivial': len(c['nontrivial_hashes']),
            'labels': dict(sorted(c['labels'].items())),
            'excluded': c['excluded'], 'known_hits': c['known_hits'],
            'exhaustive': clause.enumerate is not None,
            'wall_s': round(clause_wall.get(clause.name, 0), 2)}
        for s in c['samples'][:3]:
            samples.append({'clause': clause.name, 'case': s})
        if 'last_nontrivial' in c:
            samples.append({'clause': clause.name, 'nontrivial': True,
                            'case': c['last_nontrivial']})
        rules.append('%s: %s' % (clause.name, clause.rule))
    ev = {
        'property_id': pid, 'tier': tier, 'seed': seed, 'level': 'exploration',
        'wall_s': round(time.time() - t0, 2), 'violations': len(violations),
        'assumptions': list(getattr(mod, 'ASSUMPTIONS', [])) + [
            'pmutt imported from %s working tree (PYTHONPATH), no caches' % core.REPO,
            'Hypothesis generators are the only source of randomness; seed = f(VERIF_SEED, clause, shard)'],
        'coverage': {
            'evaluations': evaluations, 'distinct_nontrivial': nontriv,
            'rule': ' || '.join(rules), 'samples': samples,
            'per_clause': per_clause, 'saved_inputs_replayed': replayed,
            'known_findings': [{'signature': e['signature'], 'hits': known.hits[id(e)]}
                               for e in known.known],
            'exhaustive': bool(mod.CLAUSES) and all(c.enumerate is not None for c in mod.CLAUSES),
            'violation_signatures': [v[0] for v in violations],
            'fuzz': fuzz_report,
        }}
    os.makedirs(os.path.join(OUT, 'evidence'), exist_ok=True)
    with open(os.path.join(OUT, 'evidence', '%s.json' % pid), 'w') as f:
        json.dump(ev, f, indent=1, sort_keys=True, default=str)
    print('%s %s seed=%d: %d evaluations, %d distinct non-trivial, %d violation(s), %.1fs' % (
        pid, tier, seed, evaluations, nontriv, len(violations), time.time() - t0))
    return 1 if violations else 0


if __name__ == '__main__':
    try:
        rc = main(sys.argv)
    except core.HarnessError as e:
        print('HARNESS-ERROR %s' % e)
        rc = 2
    except Exception:
        print('HARNESS-ERROR\n' + traceback.format_exc())
        rc = 2
    sys.exit(rc)

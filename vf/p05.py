"""C05 - thermdat files written by pMuTT read back to the same species."""
import os
import shutil
import tempfile

import numpy as np
from hypothesis import strategies as st

from vf import ref
from vf.core import Clause
from vf.p12 import SYMBOLS

PRINTABLE = ''.join(chr(i) for i in range(33, 127))
ADVERSARIAL = ['END', 'PENDANT', 'THERMO', 'XTHERMOX', 'ENDO', 'LEGEND1', 'THERMOLYSIS', '1END', '2-butene', '123', '1',
               'H2O', 'CH3CH2OH(S)', 'A' * 15, 'Pt(S)', 'N2*', 'e-', '4', '100', '3.5', 'cis!2', 'a!']
SYMS = [s for s in SYMBOLS if len(s) <= 2]


def name_st():
    free = st.text(PRINTABLE, min_size=1, max_size=15).filter(lambda s: s[0] != '!')
    plain = st.text('ABCDEFGHIJKLMNOPQRSTUVWXYZabcdefghijklmnopqrstuvwxyz0123456789()*_-+,', min_size=1, max_size=15)
    kw = st.builds(lambda a, k, b: (a + k + b)[:15], st.text('ABCXYZ123', max_size=4), st.sampled_from(['END', 'THERMO']),
                   st.text('ABCXYZ123', max_size=4))
    return st.one_of(st.sampled_from(ADVERSARIAL), plain, plain, free, kw)


coef_st = st.one_of(st.just(0.0),
                    st.builds(lambda s, m, e: s * m * 10.0 ** e, st.sampled_from([1.0, -1.0]), st.floats(1.0, 9.999999999),
                              st.integers(-30, 30)),
                    st.floats(-1e5, 1e5).map(lambda v: 0.0 if abs(v) < 1e-30 else v),
                    st.floats(-50, 50).map(lambda v: 0.0 if abs(v) < 1e-30 else v))


@st.composite
def species_st(draw, name):
    nel = draw(st.integers(1, 4))
    syms = draw(st.lists(st.sampled_from(SYMS), min_size=nel, max_size=nel, unique=True))
    elements = []
    for s in syms:
        cnt = draw(st.one_of(st.integers(1, 9), st.integers(1, 9), st.integers(10, 99), st.integers(100, 999)))
        elements.append([s, cnt])
    if draw(st.integers(0, 4)) == 0:
        extra = draw(st.sampled_from(SYMS))
        if extra not in syms:
            elements.insert(draw(st.integers(0, len(elements))), [extra, 0])     # zero count: omitted from the file
    float_counts = draw(st.integers(0, 7)) == 0
    T_low = draw(st.one_of(st.floats(1, 1000), st.sampled_from([1.0, 100.0, 298.15, 300.0])))
    T_mid = draw(st.floats(T_low + 1, 6000))
    T_high = draw(st.one_of(st.floats(T_mid + 1, 9999.9), st.just(9999.9)))
    return {'name': name, 'elements': elements, 'float_counts': float_counts,
            'phase': draw(st.sampled_from(['G', 'S', 'L', 'B', 'g', 'X', '1'])), 'T_low': T_low, 'T_mid': T_mid, 'T_high': T_high,
            'a_low': [draw(coef_st) for _ in range(7)], 'a_high': [draw(coef_st) for _ in range(7)],
            'notes': draw(st.one_of(st.none(), st.text('abcXYZ0189-_', min_size=1, max_size=8),
                                   st.text('abcXYZ0189-_', min_size=9, max_size=24)))}


@st.composite
def file_case(draw):
    n = draw(st.one_of(st.integers(1, 6), st.integers(1, 6), st.integers(7, 40)))
    names = draw(st.lists(name_st(), min_size=n, max_size=n, unique=True))
    species = [draw(species_st(nm)) for nm in names]
    return {'species': species, 'as_dict': draw(st.booleans()), 'write_date': draw(st.booleans()),
            'read_format': draw(st.sampled_from(['list', 'tuple', 'dict'])),
            'supp_txt': draw(st.one_of(st.none(), st.just('! a comment block\n! END of comment: THERMO data follow'),
                                       st.just('!'))),
            'supp': draw(st.booleans()), 'supp_keeps_END': draw(st.booleans()), 'to_string': draw(st.booleans())}


def build_nasa(d):
    from pmutt.empirical.nasa import Nasa
    el = {}
    for s, n in d['elements']:
        el[s] = float(n) if d['float_counts'] else n
    return Nasa(name=d['name'], T_low=d['T_low'], T_mid=d['T_mid'], T_high=d['T_high'], a_low=list(d['a_low']),
                a_high=list(d['a_high']), elements=el, phase=d['phase'], notes=d['notes'])


def parse_records(text):
    """Reference fixed-column reader written from the Chemkin thermo format definition.
    Returns (list of dicts, list of layout problems)."""
    problems = []
    recs = []
    lines = text.split('\n')
    data = [ln for ln in lines if len(ln) >= 80 and ln[79] in '1234' and not ln.startswith('!')]
    other = [ln for ln in lines if ln not in data]
    for k in range(0, len(data) - len(data) % 4, 4):
        l1, l2, l3, l4 = data[k:k + 4]
        if [l1[79], l2[79], l3[79], l4[79]] != ['1', '2', '3', '4']:
            problems.append('record numbers out of sequence: %r' % ([l1[79], l2[79], l3[79], l4[79]],))
            continue
        for ln in (l1, l2, l3, l4):
            if len(ln) != 80:
                problems.append('record line has %d columns' % len(ln))
        rec = {'name': l1[:24].split(' ')[0], 'elements': {}, 'phase': l1[44]}
        for j in range(4):
            fld = l1[24 + 5 * j:29 + 5 * j]
            sym, cnt = fld[:2].strip(), fld[2:].strip()
            if not sym and not cnt:
                continue
            try:
                rec['elements'][sym] = int(float(cnt))
            except ValueError:
                problems.append('composition field %d is %r' % (j, fld))
        try:
            rec['T_low'], rec['T_high'], rec['T_mid'] = float(l1[45:55]), float(l1[55:65]), float(l1[65:73])
        except ValueError:
            problems.append('temperature fields %r' % l1[45:79])
        try:
            v2 = [float(l2[i:i + 15]) for i in range(0, 75, 15)]
            v3 = [float(l3[i:i + 15]) for i in range(0, 75, 15)]
            v4 = [float(l4[i:i + 15]) for i in range(0, 60, 15)]
        except ValueError as e:
            problems.append('coefficient field: %s' % e)
            continue
        rec['a_high'] = v2 + v3[:2]
        rec['a_low'] = v3[2:] + v4
        recs.append(rec)
    if len(data) % 4:
        problems.append('%d record lines (not a multiple of 4)' % len(data))
    return recs, problems, other


def check_file(case, ctx):
    from pmutt.io.thermdat import read_thermdat, write_thermdat
    descs = case['species']
    objs = [build_nasa(d) for d in descs]
    arg = {d['name']: o for d, o in zip(descs, objs)} if case['as_dict'] else objs
    supp_data = None
    if case['supp']:
        # a second thermdat body passed through as supplementary data
        supp_data = ''.join(write_thermdat([build_nasa(dict(descs[0], name='SUPP1'))], write_date=False).split('\n', 2)[2:])
        if not case.get('supp_keeps_END'):
            supp_data = supp_data.replace('END', '').rstrip('\n')
    d = tempfile.mkdtemp(prefix='vf-c05-')
    try:
        fn = os.path.join(d, 'thermdat')
        if case['to_string']:
            text = write_thermdat(arg, write_date=case['write_date'], supp_txt=case['supp_txt'], supp_data=supp_data)
            with open(fn, 'w', newline='\n') as f:
                f.write(text)
        else:
            write_thermdat(arg, filename=fn, write_date=case['write_date'], supp_txt=case['supp_txt'], supp_data=supp_data)
            text = open(fn).read()
        kwd = any(('END' in x['name'] or 'THERMO' in x['name']) for x in descs)
        wide = any(n >= 100 and len(s) == 2 for x in descs for s, n in x['elements'])
        ctx.nontrivial(len(descs) >= 2 and (kwd or wide or any(len(x['name']) == 15 for x in descs) or
                                            any(len(x['elements']) >= 4 for x in descs)))
        if kwd:
            ctx.label('keyword-in-name')
        if wide:
            ctx.label('two-letter-symbol-with-3-digit-count')
        if any(x['name'][0].isdigit() for x in descs):
            ctx.label('name-starts-with-digit')
        if any(x['float_counts'] for x in descs):
            ctx.label('float-counts')
        # ---------------- layout (reference fixed-column parser) -----------------
        recs, problems, other = parse_records(text)
        for p in problems[:3]:
            ctx.fail('C05.file/layout', p)
        nsupp = 1 if case['supp'] else 0
        want = descs if not nsupp else [dict(descs[0], name='SUPP1')] + descs
        if len(recs) != len(want):
            ctx.fail('C05.file/layout:record-count', '%d species written, %d four-line records in the file' % (len(want), len(recs)))
        else:
            for x, r in zip(want, recs):
                el = {s: n for s, n in x['elements'] if n > 0}
                need = ('name', 'phase', 'elements', 'a_low', 'a_high', 'T_low', 'T_mid', 'T_high')
                if any(k_ not in r for k_ in need):
                    # the reference reader reported the malformed field itself (a 'layout' failure above)
                    if not ctx.failures:
                        ctx.fail('C05.file/layout:record-incomplete', '%s: fields %r not readable at their columns' % (
                            x['name'], [k_ for k_ in need if k_ not in r]))
                    break
                if r['name'] != x['name'] or r['phase'] != x['phase'] or r['elements'] != el:
                    ctx.fail('C05.file/layout:line1-fields', 'wrote %r %r %r, columns hold %r %r %r' % (
                        x['name'], x['phase'], el, r['name'], r['phase'], r['elements']))
                    break
                ctx.close('C05.file/layout:coefficients', r['a_low'] + r['a_high'], x['a_low'] + x['a_high'], rtol=5.1e-9,
                          atol=0, detail=x['name'])
                ctx.close('C05.file/layout:temperatures', [r['T_low'], r['T_mid'], r['T_high']],
                          [x['T_low'], x['T_mid'], x['T_high']], rtol=0, atol=0.0500001, detail=x['name'])
        # ---------------- read back with pMuTT's own reader -----------------------
        try:
            back = read_thermdat(fn, format=case['read_format'])
        except Exception as e:
            from vf.core import exc_site
            if exc_site(e) is None:
                raise
            cls = 'wide-count' if wide else ('keyword-name' if kwd else 'other')
            ctx.fail('C05.file/read-raises:%s:%s' % (type(e).__name__, cls), '%s (names %r)' % (e, [x['name'] for x in descs][:6]))
            return
        want_type = {'list': list, 'tuple': tuple, 'dict': dict}[case['read_format']]
        if not isinstance(back, want_type):
            ctx.fail('C05.file/roundtrip:format', 'asked for a %s, got %s' % (case['read_format'], type(back).__name__))
            return
        if case['read_format'] == 'dict':
            if len(back) != len(set(x['name'] for x in want)):
                ctx.fail('C05.file/roundtrip:count', 'wrote %d species, dict has %d: %r' % (len(want), len(back), list(back)[:8]))
                return
            back = [back.get(x['name']) for x in want]
            if any(b is None for b in back):
                ctx.fail('C05.file/roundtrip:names', 'missing keys')
                return
        else:
            if case['read_format'] == 'tuple' and not isinstance(back, tuple):
                ctx.fail('C05.file/roundtrip:format', 'asked for a tuple, got %s' % type(back).__name__)
            back = list(back)
        if len(back) != len(want):
            ctx.fail('C05.file/roundtrip:count', 'wrote %d species %r, read %d %r' % (
                len(want), [x['name'] for x in want][:8], len(back), [b.name for b in back][:8]))
            return
        if [b.name for b in back] != [x['name'] for x in want]:
            ctx.fail('C05.file/roundtrip:names', 'wrote %r read %r' % ([x['name'] for x in want][:8], [b.name for b in back][:8]))
            return
        for x, b in zip(want, back):
            el = {s: n for s, n in x['elements'] if n > 0}
            if b.phase != x['phase'] or {k: int(v) for k, v in b.elements.items()} != el:
                ctx.fail('C05.file/roundtrip:phase-or-elements', '%s: wrote %r %r read %r %r' % (
                    x['name'], x['phase'], el, b.phase, dict(b.elements)))
                return
            ctx.close('C05.file/roundtrip:temperatures', [b.T_low, b.T_mid, b.T_high], [x['T_low'], x['T_mid'], x['T_high']],
                      rtol=0, atol=0.0500001, detail=x['name'])
            ctx.close('C05.file/roundtrip:coefficients', list(b.a_low) + list(b.a_high), x['a_low'] + x['a_high'],
                      rtol=5.1e-9, atol=0, detail=x['name'])
        # the same path written again with another collection reads back as that collection (no memory of the first)
        second = [build_nasa(dict(x, name='Z%d' % k_)) for k_, x in enumerate(descs[::-1][:3])]
        write_thermdat(second, filename=fn, write_date=False)
        again = read_thermdat(fn, format='list')
        if [b.name for b in again] != [s_.name for s_ in second]:
            ctx.fail('C05.file/rewritten-file-read-back', 'second collection %r written to the same path, read %r' % (
                [s_.name for s_ in second], [b.name for b in again][:8]))
    finally:
        shutil.rmtree(d, ignore_errors=True)


CLAUSES = [
    Clause('C05.file', file_case(), check_file, 250, 3000,
           '1-40 Nasa species (list or dict), names from an adversarial pool (END / THERMO substrings, leading digits, 15 characters) '
           'or 1-15 printable non-blank characters (not starting with "!"), 1-4 elements with one/two-letter symbols and counts 1-999 '
           '(+ zero-count entries, some as integral floats), one-character phase, T 1-9999.9, coefficients 0 or +-1e-30..1e30, '
           'date/notes, comment block, supplementary data, file or string output, read formats list/tuple/dict. Oracles: reference '
           'fixed-column parser (80 columns, record number in column 80, 15-character fields, composition in columns 25-44, phase in '
           'column 45) and read_thermdat round trip (same count, order, names, phases, elements, T to 0.05 K, 14 coefficients to 9 '
           'significant digits). Non-trivial = >= 2 species and a keyword name / 3-digit count / 15-char name / 4 elements',
           quick_shards=4),
]
# coverage-guided campaigns of the thorough tier: (clause, executions per worker, workers)
FUZZ = [('C05.file', 4000, 4)]
ASSUMPTIONS = ['names contain no blank and do not start with "!" (the format\'s comment marker)',
               'the reference parser follows the Chemkin-II thermo card layout']

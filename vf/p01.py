"""C01 - statistical-mechanical species are thermodynamically self-consistent."""
import math

import numpy as np
from hypothesis import strategies as st

from vf import gen, ref
from vf.core import Clause, exc_site


def consts():
    from pmutt import constants as c
    return {'kb': c.kb('J/K'), 'h': c.h('J s'), 'Na': c.Na, 'c': c.c('cm/s'), 'kb_eV': c.kb('eV/K'),
            'R_eV': c.R('eV/K'), 'R_kcal': c.R('kcal/mol/K'), 'R': c.R('J/mol/K')}


def theta_of(wn, K):
    return K['h'] * K['c'] * wn / K['kb']


def valid_wn(md):
    out = []
    for w in md['wn']:
        if w > 0:
            out.append(w)
        elif md.get('sub') is not None:
            out.append(md['sub'])
    return out


# ---------------------------------------------------------------------------
# textbook values of one mode at (T, P): dict of q/lnq, U, H, Cv, Cp, S (None = not asserted)
def mode_reference(kind, md, T, P, K):
    if kind == 'trans':
        n = md['n']
        out = {'U': n / 2.0, 'H': n / 2.0 + 1.0, 'Cv': n / 2.0, 'Cp': n / 2.0 + 1.0, 'S': None, 'lnq': None}
        if n == 3:
            m = md['mw'] * 1e-3 / K['Na']
            lam = (2 * math.pi * m * K['kb'] * T / K['h'] ** 2) ** 1.5
            lnq = math.log(lam * K['kb'] * T / (P * 1e5))
            out['lnq'] = lnq
            out['S'] = lnq + 2.5          # Sackur-Tetrode
        return out
    if kind == 'vib':
        k = md['kind']
        if k == 'harmonic':
            th = [theta_of(w, K) for w in valid_wn(md)]
            r = ref.harmonic(th, T)
            return {'lnq': r['lnq'], 'lnq_noZPE': r['lnq'] + r['zpe'], 'U': r['U'], 'H': r['U'], 'Cv': r['Cv'],
                    'Cp': r['Cv'], 'S': r['S'], 'ZPE_eV': 0.5 * K['kb_eV'] * sum(th)}
        if k == 'qrrho':
            U = Cv = S = zpe = 0.0
            for wv in valid_wn(md):
                th = theta_of(wv, K)
                w = 1.0 / (1.0 + (md['v0'] / wv) ** md['alpha'])
                ho = ref.harmonic([th], T)
                mu = K['h'] / (8 * math.pi ** 2 * K['c'] * wv)
                mup = mu * md['Bav'] / (mu + md['Bav'])
                s_rr = 0.5 + 0.5 * math.log(8 * math.pi ** 3 * mup * K['kb'] * T / K['h'] ** 2)
                U += w * ho['U'] + 0.5 * (1 - w)
                Cv += w * ho['Cv'] + 0.5 * (1 - w)
                S += w * ho['S'] + (1 - w) * s_rr
                zpe += 0.5 * K['kb_eV'] * w * th
            return {'lnq': None, 'U': U, 'H': U, 'Cv': Cv, 'Cp': Cv, 'S': S, 'ZPE_eV': zpe}
        if k == 'einstein':
            x = md['theta'] / T
            ho = ref.harmonic([md['theta']], T)
            zpe = md['u'] + 1.5 * md['theta'] * K['kb_eV']
            return {'lnq': None, 'U': md['u'] / (K['kb_eV'] * T) + 3 * ho['U'], 'H': md['u'] / (K['kb_eV'] * T) + 3 * ho['U'],
                    'Cv': 3 * ho['Cv'], 'Cp': 3 * ho['Cv'], 'S': 3 * ho['S'], 'ZPE_eV': zpe}
        if k == 'debye':
            x = md['theta'] / T
            D3 = ref.debye3(x)
            U = md['u'] / (K['kb_eV'] * T) + 9.0 * x / 8.0 + 3.0 * D3
            S = 4.0 * D3 - 3.0 * math.log1p(-math.exp(-x))
            Cv = 3.0 * (4.0 * D3 - 3.0 * x / math.expm1(x))
            return {'lnq': None, 'U': U, 'H': U, 'Cv': Cv, 'Cp': Cv, 'S': S,
                    'ZPE_eV': md['u'] + 9.0 / 8.0 * K['R_eV'] * md['theta']}
    if kind == 'rot':
        g = md['geometry']
        sig = md['sigma']
        if g == 'monatomic':
            return {'lnq': None, 'U': 0.0, 'H': 0.0, 'Cv': 0.0, 'Cp': 0.0, 'S': 0.0}
        if g == 'linear':
            lnq = math.log(T / (sig * md['theta'][0]))
            return {'lnq': lnq, 'U': 1.0, 'H': 1.0, 'Cv': 1.0, 'Cp': 1.0, 'S': lnq + 1.0}
        lnq = 0.5 * math.log(math.pi) - math.log(sig) + 0.5 * (3 * math.log(T) - sum(math.log(t) for t in md['theta']))
        return {'lnq': lnq, 'U': 1.5, 'H': 1.5, 'Cv': 1.5, 'Cp': 1.5, 'S': lnq + 1.5}
    if kind == 'elec':
        if md.get('kind') == 'lsr':
            e = (md['slope'] * md['dE'] + md['intercept'] + md['E_surf'] + md['E_gas']) / (K['R_kcal'] * T)
            sc = (abs(md['slope'] * md['dE']) + abs(md['intercept']) + abs(md['E_surf']) + abs(md['E_gas'])) / (K['R_kcal'] * T)
            return {'lnq': None, 'U': e, 'H': e, 'Cv': 0.0, 'Cp': 0.0, 'S': 0.0, 'scale': sc}
        e = md['E'] / (K['kb_eV'] * T)
        return {'lnq': None, 'U': e, 'H': e, 'Cv': 0.0, 'Cp': 0.0, 'S': math.log(2 * md['spin'] + 1)}
    raise ValueError(kind)


lsr_st = st.fixed_dictionaries({'kind': st.just('lsr'), 'slope': st.floats(0, 1), 'intercept': st.floats(-40, 40),
                                'dE': st.floats(-150, 0), 'E_surf': st.floats(-100, 0), 'E_gas': st.floats(-100, 0)})


def build_mode(kind, md):
    if kind == 'elec' and md is not None and md.get('kind') == 'lsr':
        from pmutt.statmech.lsr import LSR
        return LSR(slope=md['slope'], intercept=md['intercept'], reaction=md['dE'], surf_species=md['E_surf'],
                   gas_species=md['E_gas'])
    return gen.build_mode(kind, md)


@st.composite
def mode_case(draw):
    kind = draw(st.sampled_from(['trans', 'vib', 'vib', 'vib', 'rot', 'elec']))
    if kind == 'trans':
        md = draw(gen.trans_st)
    elif kind == 'vib':
        md = draw(st.one_of(gen.harmonic_st(), gen.harmonic_st(), gen.qrrho_st(), gen.einstein_st, gen.debye_st))
    elif kind == 'rot':
        md = draw(gen.rot_st())
    else:
        md = draw(st.one_of(gen.elec_st, gen.elec_st, lsr_st))
    T = draw(st.one_of(gen.T_st, gen.T_st, st.sampled_from([50.0, 298.15, 5000.0])))
    return {'kind': kind, 'mode': md, 'T': T, 'P': draw(gen.P_st)}


def _tol_for(kind, md):
    if kind == 'vib' and md['kind'] == 'debye':
        return 1e-7
    if kind == 'elec' and md.get('kind') == 'lsr':
        return 3e-4          # kcal/mol <-> eV/molecule through 4-digit table entries (C12)
    if kind == 'trans':
        return 1e-7          # R/Na vs kB: consistency of the constants is C12's business
    return 1e-9


def _debye_excess_sig(base, what, got, expect, x, tol):
    """a Debye deviation of exactly 9 Theta/4T is the known integrand defect (own signature)"""
    ex = 9.0 * x / 4.0
    if abs((got - expect) - ex) <= 1e-6 * (1 + ex):
        return '%s:%s:excess=9Theta/4T' % (base, what)
    return '%s:%s' % (base, what)


def check_mode(case, ctx):
    K = consts()
    kind, md, T, P = case['kind'], case['mode'], case['T'], case['P']
    obj = build_mode(kind, md)
    r = mode_reference(kind, md, T, P, K)
    cname = type(obj).__name__
    kw = {'T': T, 'P': P}
    tol = _tol_for(kind, md)
    ctx.label('mode:' + cname)
    if kind == 'vib' and md['kind'] in ('harmonic', 'qrrho'):
        th = [theta_of(w, K) / T for w in valid_wn(md)]
        if any(w < 0 for w in md['wn']):
            ctx.label('imaginary:' + ('substituted' if md.get('sub') is not None else 'dropped'))
        ctx.nontrivial(bool(th) and (min(th) < 0.2 or max(th) > 5))
    else:
        ctx.nontrivial(True)
    if kind == 'vib' and md['kind'] in ('harmonic', 'qrrho') and md['wn']:
        # the caller's wavenumber array is the caller's: building and using a model (with a substitute for imaginary
        # modes) leaves it alone, and a second model built from the same array without substitute drops them
        arr = np.array(md['wn'], dtype=float)
        keep = arr.copy()
        from pmutt.statmech import vib as _vib

        def mk(wn_, sub_):
            if md['kind'] == 'harmonic':
                return _vib.HarmonicVib(vib_wavenumbers=wn_, imaginary_substitute=sub_)
            return _vib.QRRHOVib(vib_wavenumbers=wn_, Bav=md['Bav'], v0=md['v0'], alpha=md['alpha'], imaginary_substitute=sub_)
        m1 = mk(arr, md.get('sub'))
        gen.call(m1.get_UoRT, T=T)
        if not np.array_equal(arr, keep):
            ctx.fail('C01.modes/wavenumber-array-modified:%s' % cname, '%r -> %r' % (keep.tolist(), arr.tolist()))
        else:
            m2 = mk(arr, None)
            m3 = mk(list(md['wn']), None)
            ctx.close('C01.modes/second-model-from-the-same-array:%s' % cname, gen.call(m2.get_SoR, T=T), gen.call(m3.get_SoR, T=T),
                      rtol=1e-13, atol=1e-13)
    val = {}
    for q in ('U', 'H', 'Cv', 'Cp', 'S', 'F', 'G'):
        name = {'U': 'get_UoRT', 'H': 'get_HoRT', 'Cv': 'get_CvoR', 'Cp': 'get_CpoR', 'S': 'get_SoR', 'F': 'get_FoRT',
                'G': 'get_GoRT'}[q]
        val[q] = float(gen.call(getattr(obj, name), **kw))
    sc = 1 + abs(val['U']) + abs(val['S'])
    ctx.close('C01.modes/G=H-TS:%s' % cname, val['G'], val['H'] - val['S'], rtol=1e-12, atol=1e-12 * sc)
    ctx.close('C01.modes/F=U-TS:%s' % cname, val['F'], val['U'] - val['S'], rtol=1e-12, atol=1e-12 * sc)
    is_debye = kind == 'vib' and md['kind'] == 'debye'
    x = md['theta'] / T if is_debye else 0.0
    for q in ('U', 'H', 'Cv', 'Cp', 'S'):
        if r.get(q) is None:
            continue
        sig = 'C01.modes/textbook:%s:%s' % (cname, q)
        if is_debye and q in ('U', 'H', 'S') and abs(val[q] - r[q]) > tol * (1 + abs(r[q])):
            sig = _debye_excess_sig('C01.modes/textbook:%s' % cname, q, val[q], r[q], x, tol)
        ctx.close(sig, val[q], r[q], rtol=tol, atol=tol * (1 + r.get('scale', abs(r['U']))), detail='T=%r' % T)
    if r.get('lnq') is not None:
        qv = float(gen.call(obj.get_q, **kw))
        if qv > 0:
            ctx.close('C01.modes/textbook:%s:q' % cname, math.log(qv), r['lnq'], rtol=tol, atol=tol * (1 + abs(r['lnq'])))
        elif r['lnq'] > -700:
            ctx.fail('C01.modes/textbook:%s:q' % cname, 'q=%r expected exp(%r)' % (qv, r['lnq']))
    if r.get('lnq_noZPE') is not None:
        qv = float(obj.get_q(T=T, include_ZPE=False))
        if qv > 0:
            ctx.close('C01.modes/textbook:%s:q-noZPE' % cname, math.log(qv), r['lnq_noZPE'], rtol=tol,
                      atol=tol * (1 + abs(r['lnq_noZPE'])))
        else:
            ctx.fail('C01.modes/textbook:%s:q-noZPE' % cname, 'q=%r expected exp(%r)' % (qv, r['lnq_noZPE']))
    if r.get('ZPE_eV') is not None:
        ctx.close('C01.modes/textbook:%s:ZPE' % cname, obj.get_ZPE(), r['ZPE_eV'], rtol=1e-9, atol=1e-12)
    # derivative relations on the mode itself
    h = (2e-2 if is_debye else 2e-3) * T
    dtol = 1e-4 if is_debye else 2e-6
    dU, eU = ref.richardson(lambda t: t * float(gen.call(obj.get_UoRT, T=t, P=P)), T, h)
    dH, eH = ref.richardson(lambda t: t * float(gen.call(obj.get_HoRT, T=t, P=P)), T, h)
    dS, eS = ref.richardson(lambda t: float(gen.call(obj.get_SoR, T=t, P=P)), T, h)
    fs = abs(T * val['U']) + 1
    ctx.close('C01.modes/dU/dT=Cv:%s' % cname, dU, val['Cv'], rtol=dtol, atol=dtol * (1 + abs(val['Cv'])) + 1e-13 * fs / h)
    ctx.close('C01.modes/dH/dT=Cp:%s' % cname, dH, val['Cp'], rtol=dtol, atol=dtol * (1 + abs(val['Cp'])) + 1e-13 * fs / h)
    sigS = 'C01.modes/TdS/dT=Cp:%s' % cname
    if is_debye and abs(T * dS - val['Cp'] + 9 * x / 4) <= 1e-3 * (1 + 9 * x / 4):
        sigS += ':excess=9Theta/4T'
    ctx.close(sigS, T * dS, val['Cp'], rtol=dtol, atol=dtol * (1 + abs(val['Cp'])) + 1e-13 * (1 + abs(val['S'])) * T / h)


# ---------------------------------------------------------------------------
@st.composite
def species_case(draw):
    d = draw(gen.statmech_desc(name='X'))
    if d['elec'] is not None and draw(st.integers(0, 4)) == 0:
        d['elec'] = draw(lsr_st)
    nmisc = draw(st.sampled_from([0, 0, 1, 2, 3]))
    misc = []
    for _ in range(nmisc):
        if draw(st.booleans()):
            f = st.floats(-1, 1)
            misc.append({'kind': 'const', 'q': draw(gen.logf(1e-2, 1e2)), 'Cv': draw(f), 'Cp': draw(f), 'U': draw(f),
                         'H': draw(f), 'S': draw(f), 'F': draw(f), 'G': draw(f)})
        else:
            misc.append({'kind': 'cov', 'intervals': [0.0, 0.5], 'slopes': [draw(st.floats(-20, 20)), draw(st.floats(-20, 20))]})
    refs = draw(st.one_of(st.none(), st.fixed_dictionaries({'offset_H': st.floats(-50, 50), 'offset_O': st.floats(-50, 50),
                                                            'T_ref': st.sampled_from([298.15, 300.0])})))
    return {'species': d, 'misc': misc, 'refs': refs, 'elements': {'H': draw(st.integers(0, 4)), 'O': draw(st.integers(1, 3))},
            'T': draw(gen.T_st), 'P': draw(gen.P_st), 'P2': draw(gen.P_st), 'x': draw(st.floats(0, 1)),
            'use_references': draw(st.booleans()), 'raise_error': draw(st.booleans()),
            'raise_warning': draw(st.booleans())}


def build_species_case(case):
    from pmutt.empirical.references import References
    from pmutt.mixture.cov import PiecewiseCovEffect
    from pmutt.statmech import ConstantMode, StatMech
    d = case['species']
    misc = []
    for m in case['misc']:
        if m['kind'] == 'const':
            misc.append(ConstantMode(**{k: v for k, v in m.items() if k != 'kind'}))
        else:
            misc.append(PiecewiseCovEffect(name_i='X', name_j='Y', intervals=list(m['intervals']), slopes=list(m['slopes'])))
    refs = None
    if case['refs'] is not None:
        refs = References(offset={'H': case['refs']['offset_H'], 'O': case['refs']['offset_O']}, T_ref=case['refs']['T_ref'])
    return StatMech(name='X', trans_model=build_mode('trans', d['trans']), vib_model=build_mode('vib', d['vib']),
                    rot_model=build_mode('rot', d['rot']), elec_model=build_mode('elec', d['elec']),
                    nucl_model=build_mode('nucl', d['nucl']), elements=dict(case['elements']), references=refs,
                    misc_models=misc or None)


GET = {'q': 'get_q', 'Cv': 'get_CvoR', 'Cp': 'get_CpoR', 'U': 'get_UoRT', 'H': 'get_HoRT', 'S': 'get_SoR', 'F': 'get_FoRT',
       'G': 'get_GoRT'}


def check_species(case, ctx):
    K = consts()
    sm = build_species_case(case)
    d = case['species']
    T, P, P2 = case['T'], case['P'], case['P2']
    opts = {'use_references': case['use_references'], 'raise_error': case['raise_error'],
            'raise_warning': case['raise_warning']}
    kw = dict(T=T, P=P, x=case['x'], **opts)
    has_trans = d['trans'] is not None
    is_debye = d['vib'] is not None and d['vib']['kind'] == 'debye'
    is_qrrho = d['vib'] is not None and d['vib']['kind'] == 'qrrho'
    nmodes = sum(1 for k in ('trans', 'vib', 'rot', 'elec') if d[k] is not None)
    ctx.nontrivial(nmodes >= 2)
    ctx.label('modes:%d' % nmodes, 'vib:%s' % (d['vib']['kind'] if d['vib'] else None),
              'trans' if has_trans else 'no-trans', 'misc:%d' % len(case['misc']),
              'refs' if case['refs'] else 'no-refs')
    v = {q: float(getattr(sm, GET[q])(**kw)) for q in ('Cv', 'Cp', 'U', 'H', 'S', 'F', 'G')}
    # misc constant modes carry unrelated U,H,S,F,G: identities are asserted without them
    plain = not any(m['kind'] == 'const' for m in case['misc'])
    sc = 1 + abs(v['U']) + abs(v['S'])
    if plain:
        ctx.close('C01.species/G=H-TS', v['G'], v['H'] - v['S'], rtol=1e-12, atol=1e-11 * sc)
        ctx.close('C01.species/F=U-TS', v['F'], v['U'] - v['S'], rtol=1e-12, atol=1e-11 * sc)
        # ... and for the values with units, under the same options (kJ/mol, kJ/mol/K)
        kwd = {k_: v_ for k_, v_ in kw.items() if k_ != 'T'}
        Tk = kw['T']
        dv = {'H': float(sm.get_H(units='kJ/mol', T=Tk, **kwd)), 'U': float(sm.get_U(units='kJ/mol', T=Tk, **kwd)),
              'G': float(sm.get_G(units='kJ/mol', T=Tk, **kwd)), 'F': float(sm.get_F(units='kJ/mol', T=Tk, **kwd)),
              'S': float(sm.get_S(units='kJ/mol/K', T=Tk, **kwd))}
        dsc = 1e-11 * sc * 8.314e-3 * Tk
        ctx.close('C01.species/G=H-TS:units', dv['G'], dv['H'] - Tk * dv['S'], rtol=1e-12, atol=dsc)
        ctx.close('C01.species/F=U-TS:units', dv['F'], dv['U'] - Tk * dv['S'], rtol=1e-12, atol=dsc)
        # the same identities when entropies are taken relative to the elements (S_elements=True moves S, F and G together)
        se = {q: float(getattr(sm, GET[q])(S_elements=True, **kw)) for q in ('S', 'F', 'G')}
        ctx.close('C01.species/G=H-TS:S_elements', se['G'], v['H'] - se['S'], rtol=1e-12, atol=1e-11 * (sc + abs(se['S'])))
        ctx.close('C01.species/F=U-TS:S_elements', se['F'], v['U'] - se['S'], rtol=1e-12, atol=1e-11 * (sc + abs(se['S'])))
        from pmutt import constants as c_
        s_el = sum(c_.S_elements[e_] * n_ for e_, n_ in case['elements'].items())    # (table is in units of R)
        ctx.close('C01.species/S_elements-shift', v['S'] - se['S'], s_el, rtol=1e-9, atol=1e-11 * (sc + abs(s_el)))
        # (the reference adjustment is an enthalpy/Gibbs offset by design - C10 - so H-U is taken without it)
        kw0 = dict(kw, use_references=False)
        ctx.close('C01.species/H-U', float(sm.get_HoRT(**kw0)) - float(sm.get_UoRT(**kw0)), 1.0 if has_trans else 0.0,
                  rtol=0, atol=1e-11 * sc)
        # entropy falls by ln(P2/P1) with ideal-gas translation, not at all without
        s2 = float(sm.get_SoR(**dict(kw, P=P2)))
        ctx.close('C01.species/S(P2)-S(P1)', s2 - v['S'], -math.log(P2 / P) if has_trans else 0.0, rtol=1e-10,
                  atol=1e-11 * sc)
        # temperature derivatives
        h = (2e-2 if is_debye else 2e-3) * T
        dtol = 1e-4 if is_debye else 2e-6
        x = d['vib']['theta'] / T if is_debye else 0.0

        def at(q, t):
            return float(getattr(sm, GET[q])(**dict(kw, T=t)))
        dU, eU = ref.richardson(lambda t: t * at('U', t), T, h)
        dH, eH = ref.richardson(lambda t: t * at('H', t), T, h)
        dS, eS = ref.richardson(lambda t: at('S', t), T, h)
        fs = abs(T * v['U']) + 1
        ctx.close('C01.species/dU/dT=Cv', dU, v['Cv'], rtol=dtol, atol=dtol * (1 + abs(v['Cv'])) + 2e-13 * fs / h)
        ctx.close('C01.species/dH/dT=Cp', dH, v['Cp'], rtol=dtol, atol=dtol * (1 + abs(v['Cp'])) + 2e-13 * fs / h)
        sigS = 'C01.species/TdS/dT=Cp'
        if is_debye and abs(T * dS - v['Cp'] + 9 * x / 4) <= 1e-3 * (1 + 9 * x / 4):
            sigS += ':DebyeVib:excess=9Theta/4T'
        ctx.close(sigS, T * dS, v['Cp'], rtol=dtol, atol=dtol * (1 + abs(v['Cp'])) + 2e-13 * (1 + abs(v['S'])) * T / h)
    # ---- additivity: verbose form sums (multiplies) to the total -----------------
    nm = len(case['misc'])
    for q in ('q', 'Cv', 'Cp', 'U', 'H', 'S', 'F', 'G'):
        if q == 'q' and is_qrrho:
            continue        # documented NotImplementedError
        parts = np.asarray(getattr(sm, GET[q])(verbose=True, **kw), dtype=float)
        total = float(getattr(sm, GET[q])(verbose=False, **kw))
        neutral = 1.0 if q == 'q' else 0.0
        # [trans, vib, rot, elec, nucl, references, misc...]; without misc models the library appends one neutral entry
        if not (parts.shape == (6 + nm,) or (nm == 0 and parts.shape == (7,) and parts[-1] == neutral)):
            ctx.fail('C01.species/verbose-length:%s' % q, 'shape %r with %d misc models' % (parts.shape, nm))
            continue
        if q == 'q':
            # subnormal factors or products carry fewer than 53 bits: not judged
            if np.all(parts > 1e-290) and total > 1e-290 and np.isfinite(total):
                ctx.close('C01.species/verbose-product:q', math.log(total), float(np.sum(np.log(parts))), rtol=1e-11, atol=1e-10)
            else:
                ctx.label('q-not-positive-finite')
        else:
            ctx.close('C01.species/verbose-sum:%s' % q, total, float(np.sum(parts)), rtol=1e-12,
                      atol=1e-12 * (1 + float(np.sum(np.abs(parts)))))
    # ---- electronic energy ------------------------------------------------------------
    if d['elec'] is not None and d['elec'].get('kind') != 'lsr':
        e0 = d['elec']['E'] / (K['kb_eV'] * T)
        ctx.close('C01.species/EoRT', float(sm.get_EoRT(T=T, include_ZPE=False)), e0, rtol=1e-12)
        if d['vib'] is not None:
            zpe = mode_reference('vib', d['vib'], T, P, K)['ZPE_eV']
            ctx.close('C01.species/EoRT+ZPE', float(sm.get_EoRT(T=T, include_ZPE=True)), e0 + zpe / (K['kb_eV'] * T),
                      rtol=1e-9, atol=1e-9)


# ---------------------------------------------------------------------------
def enum_sigma(tier):
    for label in gen.SIGMA_LABELS:
        for geom in ('linear', 'nonlinear'):
            yield {'label': label, 'geometry': geom}


def check_sigma(case, ctx):
    from pmutt.statmech.rot import RigidRotor
    th = [2.1] if case['geometry'] == 'linear' else [13.4, 20.9, 40.1]
    ctx.nontrivial(True)
    a = RigidRotor(symmetrynumber=case['label'], rot_temperatures=list(th), geometry=case['geometry'])
    b = RigidRotor(symmetrynumber=gen.SIGMA_VALUE[case['label']], rot_temperatures=list(th), geometry=case['geometry'])
    for T in (100.0, 298.15, 1500.0):
        ctx.close('C01.sigma/q', a.get_q(T=T), b.get_q(T=T), rtol=1e-14, detail=case['label'])
        ctx.close('C01.sigma/S', a.get_SoR(T=T), b.get_SoR(T=T), rtol=1e-14, detail=case['label'])


# ---------------------------------------------------------------------------
@st.composite
def cache_case(draw):
    first = draw(gen.harmonic_st())
    later = [draw(gen.harmonic_st()) for _ in range(draw(st.integers(1, 3)))]
    sub = first['sub']
    spins = [draw(st.sampled_from([0, 0.5, 1, 1.5, 2])) for _ in range(len(later) + 1)]
    return {'first': first['wn'], 'later': [m['wn'] for m in later], 'sub': sub, 'spins': spins,
            'cls': draw(st.sampled_from(['harmonic', 'qrrho'])), 'T': draw(gen.T_st)}


def check_cache(case, ctx):
    from pmutt.statmech.elec import GroundStateElec
    from pmutt.statmech.vib import HarmonicVib, QRRHOVib
    T = case['T']

    def mk(wn):
        if case['cls'] == 'harmonic':
            return HarmonicVib(vib_wavenumbers=list(wn), imaginary_substitute=case['sub'])
        return QRRHOVib(vib_wavenumbers=np.array(wn, dtype=float), imaginary_substitute=case['sub'])
    if case['cls'] == 'qrrho' and not all(len([w for w in wn if w > 0 or case['sub'] is not None]) for wn in
                                          [case['first']] + case['later']):
        ctx.exclude('quasi-RRHO needs at least one retained wavenumber')
        return
    obj = mk(case['first'])
    el = GroundStateElec(potentialenergy=-1.0, spin=case['spins'][0])
    ctx.nontrivial(True)
    for wn, sp in zip(case['later'], case['spins'][1:]):
        obj.vib_wavenumbers = np.array(wn, dtype=float)
        el.spin = sp
        fresh = mk(wn)
        for g in ('get_UoRT', 'get_CvoR', 'get_SoR', 'get_ZPE'):
            a = gen.call(getattr(obj, g), T=T)
            b = gen.call(getattr(fresh, g), T=T)
            ctx.close('C01.cache/vib:%s' % g, a, b, rtol=1e-14, detail='after reassigning vib_wavenumbers')
        fe = GroundStateElec(potentialenergy=-1.0, spin=sp)
        ctx.close('C01.cache/elec:S', el.get_SoR(), fe.get_SoR(), rtol=1e-14)
        ctx.close('C01.cache/elec:q', el.get_q(T=T, ignore_q_elec=False), fe.get_q(T=T, ignore_q_elec=False), rtol=1e-14)


# ---------------------------------------------------------------------------
_G2 = None


def g2_names():
    global _G2
    if _G2 is None:
        from ase.collections import g2
        _G2 = sorted(g2.names)
    return _G2


@st.composite
def geometry_case(draw):
    q = [draw(st.floats(-1, 1)) for _ in range(4)]
    if sum(v * v for v in q) < 1e-3:
        q = [1.0, 0.0, 0.0, 0.0]
    return {'mol': draw(st.integers(0, 161)), 'quat': q, 'shift': [draw(st.floats(-50, 50)) for _ in range(3)],
            'perm_seed': draw(st.lists(st.integers(0, 1000), min_size=0, max_size=30)),
            'reverse': draw(st.booleans())}


def _rotation(q):
    w, x, y, z = np.array(q) / np.linalg.norm(q)
    return np.array([[1 - 2 * (y * y + z * z), 2 * (x * y - z * w), 2 * (x * z + y * w)],
                     [2 * (x * y + z * w), 1 - 2 * (x * x + z * z), 2 * (y * z - x * w)],
                     [2 * (x * z - y * w), 2 * (y * z + x * w), 1 - 2 * (x * x + y * y)]])


def check_geometry(case, ctx):
    from ase import Atoms
    from ase.build import molecule
    from pmutt.statmech import StatMech
    from pmutt.statmech.rot import get_geometry_from_atoms, get_rot_temperatures_from_atoms
    from pmutt.statmech.trans import FreeTrans
    names = g2_names()
    name = names[case['mol'] % len(names)]
    a0 = molecule(name)
    n = len(a0)
    # permutation from the seed list (Fisher-Yates driven by the drawn integers)
    perm = list(range(n))
    if case['reverse']:
        perm = perm[::-1]
    for k, s in enumerate(case['perm_seed'][:max(0, n - 1)]):
        j = k + s % (n - k)
        perm[k], perm[j] = perm[j], perm[k]
    Rm = _rotation(case['quat'])
    pos = a0.get_positions()[perm] @ Rm.T + np.array(case['shift'])
    a1 = Atoms(symbols=[a0.get_chemical_symbols()[i] for i in perm], positions=pos)
    ctx.nontrivial(n >= 3 and perm != list(range(n)))
    ctx.label('atoms:%s' % ('1' if n == 1 else '2' if n == 2 else '3+'))
    g0, g1 = get_geometry_from_atoms(a0), get_geometry_from_atoms(a1)
    ctx.label('geometry:' + g0)
    if g0 != g1:
        ctx.fail('C01.geometry/linearity-depends-on-pose', '%s: %s vs %s (perm %r)' % (name, g0, g1, perm))
        return
    t0 = sorted(get_rot_temperatures_from_atoms(a0))
    t1 = sorted(get_rot_temperatures_from_atoms(a1))
    ctx.close('C01.geometry/rot-temperatures', t1, t0, rtol=1e-8, atol=1e-10, detail=name)
    ctx.close('C01.geometry/molar-mass', FreeTrans(atoms=a1).molecular_weight, FreeTrans(atoms=a0).molecular_weight,
              rtol=1e-12, detail=name)
    e0 = StatMech(atoms=a0).elements
    e1 = StatMech(atoms=a1).elements
    if e0 != e1:
        ctx.fail('C01.geometry/composition', '%s: %r vs %r' % (name, e0, e1))
    # independent anchors: composition = symbol count, mass = sum of ase masses
    from collections import Counter
    if dict(Counter(a0.get_chemical_symbols())) != e0:
        ctx.fail('C01.geometry/composition-vs-symbols', '%s: %r' % (name, e0))


def enum_g2(tier):
    n = len(g2_names())
    for i in range(n):
        for k in range(2 if tier == 'quick' else 6):
            q = [math.cos(0.7 * i + k), math.sin(1.3 * i + 2 * k), math.cos(2.1 * i - k), math.sin(0.3 * i + k) + 0.1]
            yield {'mol': i, 'quat': q, 'shift': [3.0 * k - 7.0, 11.0 - i % 13, 0.5 * i - 20.0],
                   'perm_seed': [(7 * i + 3 * k + 5 * j) % 97 for j in range(30)], 'reverse': k % 2 == 1}


@st.composite
def extra_case(draw):
    kind = draw(st.sampled_from(['xlsr', 'const', 'elec']))
    T = draw(gen.T_st)
    if kind == 'xlsr':
        n = draw(st.integers(1, 3))
        fl = lambda lo, hi: [draw(st.floats(lo, hi)) for _ in range(n)]
        return {'kind': kind, 'T': T, 'slopes': fl(0, 1), 'dE': fl(-150, 0), 'E_surf': fl(-100, 0), 'E_gas': fl(-100, 0),
                'intercept': draw(st.floats(-40, 40)), 'defaults': draw(st.booleans())}
    if kind == 'const':
        return {'kind': kind, 'T': T, 'vals': {k: draw(st.floats(-5, 5)) for k in ('Cv', 'Cp', 'U', 'H', 'S', 'F', 'G')},
                'q': draw(st.floats(1e-3, 1e3))}
    return {'kind': kind, 'T': T, 'E': draw(st.floats(-50, 0)), 'D0': draw(st.floats(0.01, 10)),
            'spin': draw(st.sampled_from([0, 0.5, 1, 1.5]))}


def check_extra(case, ctx):
    """model classes of the C01 quantifier that are not thermodynamic modes of their own: extended linear scaling, user-set
    constant modes (their unit convention), electronic ground state defaults and dissociation-energy option"""
    K = consts()
    T = case['T']
    ctx.nontrivial(True)
    ctx.label('extra:' + case['kind'])
    if case['kind'] == 'xlsr':
        from pmutt.statmech.lsr import ExtendedLSR
        kw = {}
        if not case['defaults']:
            kw = {'surf_species': list(case['E_surf']), 'gas_species': list(case['E_gas'])}
        obj = ExtendedLSR(slopes=list(case['slopes']), intercept=case['intercept'], reactions=list(case['dE']), **kw)
        terms = [s_ * d_ for s_, d_ in zip(case['slopes'], case['dE'])] + [case['intercept']]
        if not case['defaults']:       # documented default of surface and gas energies: 0
            terms += list(case['E_surf']) + list(case['E_gas'])
        e = math.fsum(terms) / (K['R_kcal'] * T)
        sc = math.fsum(abs(t) for t in terms) / (K['R_kcal'] * T)
        for g in ('get_UoRT', 'get_HoRT', 'get_FoRT', 'get_GoRT'):
            ctx.close('C01.extra/ExtendedLSR:%s' % g, getattr(obj, g)(T=T), e, rtol=0, atol=3e-4 * (1 + sc), detail='T=%r' % T)
        for g in ('get_CvoR', 'get_CpoR', 'get_SoR'):
            if getattr(obj, g)() != 0:
                ctx.fail('C01.extra/ExtendedLSR:%s-nonzero' % g, repr(getattr(obj, g)()))
        # the one-reaction LSR with its documented defaults (surface and gas energies 0)
        from pmutt.statmech.lsr import LSR
        one = LSR(slope=case['slopes'][0], intercept=case['intercept'], reaction=case['dE'][0])
        e1 = (case['slopes'][0] * case['dE'][0] + case['intercept']) / (K['R_kcal'] * T)
        ctx.close('C01.extra/LSR-defaults', one.get_UoRT(T=T), e1, rtol=0,
                  atol=3e-4 * (1 + (abs(case['slopes'][0] * case['dE'][0]) + abs(case['intercept'])) / (K['R_kcal'] * T)))
        return
    if case['kind'] == 'const':
        from pmutt.statmech import ConstantMode
        obj = ConstantMode(q=case['q'], **case['vals'])
        v = case['vals']
        ctx.close('C01.extra/ConstantMode:q', obj.get_q(), case['q'], rtol=0)
        # documented defaults: q = 1, everything else 0
        blank = ConstantMode()
        if blank.get_q() != 1 or any(gen.call(getattr(blank, g_), T=T) != 0 for g_ in (
                'get_CvoR', 'get_CpoR', 'get_SoR', 'get_UoRT', 'get_HoRT', 'get_FoRT', 'get_GoRT')):
            ctx.fail('C01.extra/ConstantMode:defaults', 'a ConstantMode() without arguments is not neutral')
        for name, key, withT in (('get_CvoR', 'Cv', False), ('get_CpoR', 'Cp', False), ('get_SoR', 'S', False),
                                 ('get_UoRT', 'U', True), ('get_HoRT', 'H', True), ('get_FoRT', 'F', True), ('get_GoRT', 'G', True)):
            got = gen.call(getattr(obj, name), T=T)
            ctx.close('C01.extra/ConstantMode:%s' % name, got, v[key] / (K['kb_eV'] * (T if withT else 1.0)), rtol=1e-12)
        return
    from pmutt.statmech.elec import GroundStateElec
    a = GroundStateElec(potentialenergy=case['E'], spin=case['spin'], D0=case['D0'])
    b = GroundStateElec(potentialenergy=case['D0'], spin=case['spin'])
    # with a dissociation energy the electronic partition function uses it in place of the potential energy
    qa, qb = a.get_q(T=T, ignore_q_elec=False), b.get_q(T=T, ignore_q_elec=False)
    ctx.close('C01.extra/GroundStateElec:q(D0)', qa, qb, rtol=1e-12)
    if a.get_q(T=T) != 1.0:
        ctx.fail('C01.extra/GroundStateElec:q-ignored-by-default', repr(a.get_q(T=T)))
    # documented default of free translation: three degrees of freedom
    from pmutt.statmech.trans import FreeTrans
    mw_ = 2.0 + 10.0 * case['D0']
    ctx.close('C01.extra/FreeTrans:default-n_degrees', FreeTrans(molecular_weight=mw_).get_SoR(T=T, P=1.0),
              FreeTrans(n_degrees=3, molecular_weight=mw_).get_SoR(T=T, P=1.0), rtol=0)
    ctx.close('C01.extra/FreeTrans:default-n_degrees', FreeTrans(molecular_weight=mw_).get_CvoR(), 1.5, rtol=0)
    # documented default interaction energy of the Einstein crystal: 0 eV (the Debye model requires it)
    from pmutt.statmech.vib import EinsteinVib
    th_ = 100.0 + 100.0 * case['D0']
    ctx.close('C01.extra/EinsteinVib:default-interaction-energy', EinsteinVib(einstein_temperature=th_).get_UoRT(T=T),
              EinsteinVib(einstein_temperature=th_, interaction_energy=0.).get_UoRT(T=T), rtol=0)
    # documented default potential energy: none given means 0
    if GroundStateElec().get_UoRT(T=T) != 0 or GroundStateElec(spin=case['spin']).get_HoRT(T=T) != 0:
        ctx.fail('C01.extra/GroundStateElec:default-energy', 'no potential energy given, U/RT = %r' % GroundStateElec().get_UoRT(T=T))
    # documented default spin: 0 (singlet, no electronic entropy)
    d = GroundStateElec(potentialenergy=case['E'])
    if d.get_SoR() != 0:
        ctx.fail('C01.extra/GroundStateElec:default-spin', 'S/R = %r without a spin' % d.get_SoR())
    ctx.close('C01.extra/GroundStateElec:S', a.get_SoR(), math.log(2 * case['spin'] + 1), rtol=1e-12, atol=1e-15)


CLAUSES = [
    Clause('C01.modes', mode_case(), check_mode, 1000, 6000,
           'one mode object (FreeTrans n=1-3, HarmonicVib with 0-12 wavenumbers incl. imaginary dropped/substituted, QRRHOVib, '
           'EinsteinVib, DebyeVib, RigidRotor monatomic/linear/nonlinear, GroundStateElec, LSR) over the C01 parameter ranges at T '
           '50-5000 K, P 1e-4-1e3 bar: G=H-TS, F=U-TS, textbook closed forms (own formulas, own Debye quadrature), dU/dT=Cv, '
           'dH/dT=Cp, T dS/dT=Cp by Richardson differences. Non-trivial (vibrations) = a mode with Theta/T<0.2 or >5',
           quick_shards=3),
    Clause('C01.species', species_case(), check_species, 600, 4000,
           'StatMech species from every combination of modes (+LSR electronic energy, EmptyNucl, 0-3 misc ConstantMode / '
           'PiecewiseCovEffect models, optional References) x T, P, P2 x use_references/raise_error/raise_warning: identities, '
           'H-U, S(P2)-S(P1), temperature derivatives, verbose form has 6+N entries whose sum/product is the total, EoRT (+ZPE). '
           'Non-trivial = >= 2 non-empty modes', quick_shards=4),
    Clause('C01.extra', extra_case(), check_extra, 300, 3000,
           'ExtendedLSR with 1-3 reference reactions given as energies (with and without surface/gas energies: documented default 0), '
           'ConstantMode (attributes in eV, eV/K -> dimensionless by kB), GroundStateElec (q ignored by default, D0 replaces the '
           'potential energy in q, default spin 0): closed forms typed in the harness'),
    Clause('C01.sigma', None, check_sigma, 0, 0,
           'exhaustive: 13 documented point-group labels x {linear, nonlinear}: label gives the same q and S as the tabulated number',
           enumerate=enum_sigma),
    Clause('C01.cache', cache_case(), check_cache, 600, 3000,
           'HarmonicVib / QRRHOVib with 1-3 reassignments of vib_wavenumbers and GroundStateElec with reassigned spin: getters equal '
           'those of a freshly constructed mode'),
    Clause('C01.g2', None, check_geometry, 0, 0,
           'every molecule of ase.collections.g2 (162) x 2 (quick) / 6 (thorough) deterministic rigid motions + permutations: '
           'linearity label, sorted rotational temperatures, molar mass, composition unchanged', enumerate=enum_g2),
    Clause('C01.geometry', geometry_case(), check_geometry, 200, 2500,
           'random G2 molecule x random unit quaternion x translation <= 50 A x random permutation; same oracle. Non-trivial = >= 3 '
           'atoms and a non-identity permutation', quick_shards=2),
]
ASSUMPTIONS = ['physical constants from pmutt.constants (C12)',
               'Sackur-Tetrode is asserted for n_degrees=3 only; q of a monatomic rotor and F=-ln q are not asserted',
               'Debye derivative relations are judged at 1e-4 (two adaptive quadratures), textbook values at 1e-7']

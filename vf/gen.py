"""Shared Hypothesis strategies: JSON descriptors of pMuTT objects + builders."""
import inspect
import math

import numpy as np
from hypothesis import strategies as st

NAME_FIRST = 'ABCDEFGHIJKLMNOPQRSTUVWXYZabcdefghijklmnopqrstuvwxyz'
NAME_REST = NAME_FIRST + '0123456789()*_'
name_st = st.builds(lambda a, b: a + b, st.sampled_from(NAME_FIRST), st.text(NAME_REST, min_size=0, max_size=6))


def logf(lo, hi):
    return st.floats(math.log(lo), math.log(hi)).map(lambda v: float(math.exp(v)))


T_st = logf(50, 5000)
P_st = logf(1e-4, 1e3)
SIGMA_LABELS = ['C1', 'Cs', 'C2', 'C2v', 'C3v', 'Cinfv', 'D2h', 'D3h', 'D5h', 'Dinfh', 'D3d', 'Td', 'Oh']
SIGMA_VALUE = {'C1': 1, 'Cs': 1, 'C2': 2, 'C2v': 2, 'C3v': 3, 'Cinfv': 1, 'D2h': 4, 'D3h': 6, 'D5h': 10, 'Dinfh': 2,
               'D3d': 6, 'Td': 12, 'Oh': 24}


def call(method, **kw):
    """Call with the keyword arguments the method accepts (own implementation)."""
    sig = inspect.signature(method)
    if any(p.kind == p.VAR_KEYWORD for p in sig.parameters.values()):
        return method(**kw)
    return method(**{k: v for k, v in kw.items() if k in sig.parameters})


# ---------------------------------------------------------------------------
# mode descriptors
trans_st = st.fixed_dictionaries({'n': st.sampled_from([3, 3, 2, 1]), 'mw': logf(1, 500)})

wn_st = st.one_of(logf(10, 4500), logf(10, 300), logf(500, 4500))


@st.composite
def harmonic_st(draw, allow_imag=True):
    n = draw(st.integers(0, 12))
    wn = [draw(wn_st) for _ in range(n)]
    n_imag = draw(st.sampled_from([0, 0, 0, 1, 2])) if allow_imag else 0
    for _ in range(n_imag):
        wn.insert(draw(st.integers(0, len(wn))), -draw(logf(10, 2000)))
    sub = draw(st.one_of(st.none(), logf(10, 200))) if n_imag else draw(st.sampled_from([None, None, 50.0]))
    return {'kind': 'harmonic', 'wn': wn, 'sub': sub}


@st.composite
def qrrho_st(draw, allow_imag=True):
    n = draw(st.integers(1, 12))
    wn = [draw(wn_st) for _ in range(n)]
    n_imag = draw(st.sampled_from([0, 0, 0, 1, 2])) if allow_imag else 0
    for _ in range(n_imag):
        wn.insert(draw(st.integers(0, len(wn))), -draw(logf(10, 2000)))
    sub = draw(st.one_of(st.none(), logf(10, 200))) if n_imag else None
    return {'kind': 'qrrho', 'wn': wn, 'Bav': draw(logf(1e-46, 1e-43)),
            'v0': draw(logf(20, 300)), 'alpha': draw(st.sampled_from([2, 4, 6])), 'sub': sub}


einstein_st = st.fixed_dictionaries({'kind': st.just('einstein'), 'theta': logf(50, 2000), 'u': st.floats(-5, 5)})
debye_st = st.fixed_dictionaries({'kind': st.just('debye'), 'theta': logf(50, 2000), 'u': st.floats(-5, 5)})


@st.composite
def rot_st(draw, labels=False):
    geom = draw(st.sampled_from(['monatomic', 'linear', 'nonlinear', 'nonlinear']))
    nth = {'monatomic': 0, 'linear': 1, 'nonlinear': 3}[geom]
    sigma = draw(st.integers(1, 24))
    return {'geometry': geom, 'theta': [draw(logf(0.01, 100)) for _ in range(nth)], 'sigma': sigma}


elec_st = st.fixed_dictionaries({'E': st.one_of(st.floats(-500, 5), st.floats(-20, 0)),
                                 'spin': st.sampled_from([0, 0, 0.5, 1, 1.5, 2])})


@st.composite
def statmech_desc(draw, name=None, vib_kinds=('harmonic', 'harmonic', 'qrrho', 'einstein', 'debye', None),
                  gas=None, allow_imag=True):
    """gas=True: trans+rot present; False: adsorbate-like; None: any combination"""
    d = {'cls': 'StatMech', 'name': name if name is not None else draw(name_st)}
    if gas is None:
        has_trans = draw(st.booleans())
        has_rot = draw(st.booleans())
    else:
        has_trans = has_rot = gas
    d['trans'] = draw(trans_st) if has_trans else None
    vk = draw(st.sampled_from(list(vib_kinds)))
    d['vib'] = None if vk is None else draw({'harmonic': harmonic_st(allow_imag), 'qrrho': qrrho_st(allow_imag),
                                             'einstein': einstein_st, 'debye': debye_st}[vk])
    d['rot'] = draw(rot_st()) if has_rot else None
    d['elec'] = draw(st.one_of(st.none(), elec_st, elec_st, elec_st))
    d['nucl'] = draw(st.booleans())
    return d


def build_mode(kind, md):
    from pmutt.statmech import trans, vib, rot, elec, nucl, EmptyMode
    if md is None or md is False:
        return EmptyMode()
    if kind == 'trans':
        return trans.FreeTrans(n_degrees=md['n'], molecular_weight=md['mw'])
    if kind == 'vib':
        k = md['kind']
        if k == 'harmonic':
            return vib.HarmonicVib(vib_wavenumbers=list(md['wn']), imaginary_substitute=md['sub'])
        if k == 'qrrho':
            return vib.QRRHOVib(vib_wavenumbers=list(md['wn']), Bav=md['Bav'], v0=md['v0'], alpha=md['alpha'],
                                imaginary_substitute=md.get('sub'))
        if k == 'einstein':
            return vib.EinsteinVib(einstein_temperature=md['theta'], interaction_energy=md['u'])
        if k == 'debye':
            return vib.DebyeVib(debye_temperature=md['theta'], interaction_energy=md['u'])
    if kind == 'rot':
        return rot.RigidRotor(symmetrynumber=md['sigma'], rot_temperatures=list(md['theta']),
                              geometry=md['geometry'])
    if kind == 'elec':
        return elec.GroundStateElec(potentialenergy=md['E'], spin=md['spin'])
    if kind == 'nucl':
        return nucl.EmptyNucl()
    raise ValueError(kind)


def build_statmech(d, **extra):
    from pmutt.statmech import StatMech
    return StatMech(name=d['name'], trans_model=build_mode('trans', d['trans']),
                    vib_model=build_mode('vib', d['vib']), rot_model=build_mode('rot', d['rot']),
                    elec_model=build_mode('elec', d['elec']),
                    nucl_model=build_mode('nucl', d['nucl']), elements=d.get('elements'), **extra)


# ---------------------------------------------------------------------------
# empirical species (physical coefficients; exact values do not matter for relations)
@st.composite
def nasa_desc(draw, name=None, phase=None):
    T_low = draw(st.floats(100, 400))
    T_mid = draw(st.floats(600, 1500))
    T_high = draw(st.floats(2000, 6000))

    def a():
        return [draw(st.floats(1, 15)), draw(st.floats(-5e-3, 5e-3)), draw(st.floats(-5e-6, 5e-6)),
                draw(st.floats(-2e-9, 2e-9)), draw(st.floats(-5e-13, 5e-13)), draw(st.floats(-6e4, 3e4)),
                draw(st.floats(-30, 40))]
    return {'cls': 'Nasa', 'name': name if name is not None else draw(name_st), 'T_low': T_low, 'T_mid': T_mid,
            'T_high': T_high, 'a_low': a(), 'a_high': a(), 'phase': phase}


@st.composite
def nasa9_desc(draw, name=None, phase=None):
    nseg = draw(st.integers(1, 3))
    pts = [50.0, 1000.0, 3000.0, 6000.0][:nseg] + [6000.0]
    pts = sorted(set(pts))
    segs = []
    for i in range(len(pts) - 1):
        segs.append({'T_low': pts[i], 'T_high': pts[i + 1],
                     'a': [draw(st.floats(-1e4, 1e4)), draw(st.floats(-1e2, 1e2)), draw(st.floats(1, 15)),
                           draw(st.floats(-5e-3, 5e-3)), draw(st.floats(-5e-6, 5e-6)), draw(st.floats(-2e-9, 2e-9)),
                           draw(st.floats(-5e-13, 5e-13)), draw(st.floats(-6e4, 3e4)), draw(st.floats(-30, 40))]})
    return {'cls': 'Nasa9', 'name': name if name is not None else draw(name_st), 'segs': segs, 'phase': phase}


@st.composite
def shomate_desc(draw, name=None, phase=None, units=('J/mol/K',)):
    return {'cls': 'Shomate', 'name': name if name is not None else draw(name_st), 'T_low': 50.0,
            'T_high': 6000.0, 'units': draw(st.sampled_from(list(units))), 'phase': phase,
            'a': [draw(st.floats(10, 100)), draw(st.floats(-50, 50)), draw(st.floats(-20, 20)),
                  draw(st.floats(-5, 5)), draw(st.floats(-2, 2)), draw(st.floats(-500, 300)),
                  draw(st.floats(100, 400)), draw(st.floats(-500, 300))]}


@st.composite
def constant_desc(draw, name=None):
    f = st.floats(-3, 3)
    return {'cls': 'Constant', 'name': name if name is not None else draw(name_st),
            'q': draw(logf(1e-3, 1e3)), 'Cv': draw(f), 'Cp': draw(f), 'U': draw(f), 'H': draw(f), 'S': draw(f),
            'F': draw(f), 'G': draw(f)}


def build_species(d, **extra):
    cls = d['cls']
    if cls == 'StatMech':
        return build_statmech(d, **extra)
    if cls == 'Nasa':
        from pmutt.empirical.nasa import Nasa
        return Nasa(name=d['name'], T_low=d['T_low'], T_mid=d['T_mid'], T_high=d['T_high'], a_low=list(d['a_low']),
                    a_high=list(d['a_high']), phase=d.get('phase'), elements=d.get('elements'), **extra)
    if cls == 'Nasa9':
        from pmutt.empirical.nasa import Nasa9, SingleNasa9
        return Nasa9(name=d['name'], nasas=[SingleNasa9(T_low=s['T_low'], T_high=s['T_high'], a=np.array(s['a']))
                                            for s in d['segs']], phase=d.get('phase'), elements=d.get('elements'),
                     **extra)
    if cls == 'Shomate':
        from pmutt.empirical.shomate import Shomate
        return Shomate(name=d['name'], T_low=d['T_low'], T_high=d['T_high'], a=np.array(d['a']), units=d['units'],
                       phase=d.get('phase'), elements=d.get('elements'), **extra)
    if cls == 'Constant':
        from pmutt.statmech import StatMech, ConstantMode
        return StatMech(name=d['name'], elec_model=ConstantMode(q=d['q'], Cv=d['Cv'], Cp=d['Cp'], U=d['U'], H=d['H'],
                                                                S=d['S'], F=d['F'], G=d['G']),
                        elements=d.get('elements'), **extra)
    raise ValueError(cls)


def species_desc(name=None, classes=('StatMech', 'StatMech', 'Nasa', 'Nasa9', 'Shomate', 'Constant')):
    opts = []
    for c_ in classes:
        opts.append({'StatMech': statmech_desc(name=name, allow_imag=False), 'Nasa': nasa_desc(name=name),
                     'Nasa9': nasa9_desc(name=name), 'Shomate': shomate_desc(name=name),
                     'Constant': constant_desc(name=name)}[c_])
    return st.one_of(*opts)

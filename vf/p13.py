"""C13 - pressure and coverage corrections are added exactly once per attached model."""
import copy
import json

import numpy as np
from hypothesis import strategies as st

from vf import gen
from vf.core import Clause

PHASES = ['g', 'gas', 'G', 'Gas', 's', 'S', None]
ADS = ['CO(S)', 'O(S)', 'H(S)', 'OH(S)', 'O', 'OH', 'CO']     # suffix- and prefix-related names on purpose


@st.composite
def cov_model(draw):
    n = draw(st.integers(1, 4))
    cuts = sorted(draw(st.lists(st.floats(0.05, 1.0), min_size=n - 1, max_size=n - 1, unique=True)))
    return {'kind': 'cov', 'name_j': draw(st.sampled_from(ADS)), 'intervals': [0.0] + cuts,
            'slopes': [draw(st.floats(-50, 50)) for _ in range(n)]}


@st.composite
def corr_case(draw):
    cls = draw(st.sampled_from(['Nasa', 'Nasa9', 'Shomate']))
    sp = draw({'Nasa': gen.nasa_desc(name='X'), 'Nasa9': gen.nasa9_desc(name='X'),
               'Shomate': gen.shomate_desc(name='X')}[cls])
    phase = draw(st.sampled_from(PHASES))
    gas = phase is not None and phase.lower() in ('g', 'gas')
    nm = draw(st.integers(0, 4))
    models = []
    have_p = False
    for _ in range(nm):
        k = draw(st.sampled_from(['cov', 'cov', 'P']))
        # a pressure adjustment is only ever attached (by the user or the library) to a gas species, at most once
        if k == 'P' and gas and not have_p:
            models.append({'kind': 'P'})
            have_p = True
        else:
            models.append(draw(cov_model()))
    supplied = draw(st.sampled_from(['list', 'list', 'none-if-empty']))
    nT = draw(st.sampled_from([0, 0, 1, 2, 3, 5, 50]))     # 0 = scalar T
    nT = nT if nT != 50 else draw(st.integers(4, 50))
    Ts = [draw(st.floats(300, 2500)) for _ in range(max(nT, 1))]
    if draw(st.integers(0, 3)) == 0:
        Ts = [int(round(t)) for t in Ts]        # whole-number temperatures typed as integers
    x = {a: draw(st.floats(0, 1)) for a in ADS}
    return {'species': sp, 'phase': phase, 'models': models, 'supplied': supplied,
            'add': draw(st.sampled_from(['default', 'default', True, False])), 'scalar_T': nT == 0, 'T': Ts,
            'P': draw(gen.logf(1e-3, 1e2)), 'x': x, 'x_order': list(draw(st.permutations(ADS))), 'x_global': draw(st.one_of(st.none(), st.floats(0, 1))),
            'path': draw(st.sampled_from(['direct', 'direct', 'deepcopy', 'dict1', 'dict2', 'dict3', 'json1', 'from_data', 'from_model'])),
            'container': draw(st.sampled_from(['ndarray', 'list']))}


def _build_models(case):
    from pmutt.empirical import GasPressureAdj
    from pmutt.mixture.cov import PiecewiseCovEffect
    out = []
    for m in case['models']:
        if m is None:
            out.append(None)
        elif m['kind'] == 'P':
            out.append(GasPressureAdj())
        else:
            out.append(PiecewiseCovEffect(name_i='X', name_j=m['name_j'], intervals=list(m['intervals']),
                                          slopes=list(m['slopes'])))
    return out


def _construct(case, phase, models, add):
    sp = dict(case['species'])
    sp['phase'] = phase
    extra = {}
    if add != 'default':
        extra['add_gas_P_adj'] = add
    if case['path'] == 'from_data' and sp['cls'] in ('Nasa', 'Shomate'):
        T = np.linspace(300., 2500., 40)
        CpoR = 4.0 + 1e-3 * T
        if sp['cls'] == 'Nasa':
            from pmutt.empirical.nasa import Nasa
            return Nasa.from_data(name='X', T=T, CpoR=CpoR, T_ref=500., HoRT_ref=-10., SoR_ref=25., phase=phase,
                                  misc_models=models, **extra)
        from pmutt.empirical.shomate import Shomate
        return Shomate.from_data(name='X', T=T, CpoR=CpoR, T_ref=500., HoRT_ref=-10., SoR_ref=25., phase=phase,
                                 misc_models=models, **extra)
    if case['path'] == 'from_model' and sp['cls'] in ('Nasa', 'Nasa9', 'Shomate'):
        from pmutt.empirical.nasa import Nasa, Nasa9
        from pmutt.empirical.shomate import Shomate
        T = np.linspace(300., 2500., 40)
        src = Nasa.from_data(name='src', T=T, CpoR=4.0 + 1e-3 * T, T_ref=500., HoRT_ref=-10., SoR_ref=25.)
        cls = {'Nasa': Nasa, 'Nasa9': Nasa9, 'Shomate': Shomate}[sp['cls']]
        return cls.from_model(name='X', model=src, T_low=300., T_high=2500., phase=phase, misc_models=models, **extra)
    return gen.build_species(sp, misc_models=models, **extra)


def check_corr(case, ctx):
    from pmutt.empirical import GasPressureAdj
    from pmutt.io.json import pmuttEncoder, json_to_pmutt
    from pmutt.mixture.cov import PiecewiseCovEffect
    phase = case['phase']
    is_gas = phase is not None and phase.lower() in ('g', 'gas')
    models = _build_models(case)
    supplied = models if (models or case['supplied'] == 'list') else None
    obj = _construct(case, phase, supplied, case['add'])
    bare = _construct(case, None, None, 'default')
    # --- construction path ----------------------------------------------------
    path = case['path']
    if path == 'deepcopy':
        obj = copy.deepcopy(obj)
    elif path.startswith('dict'):
        for _ in range(int(path[4:])):
            obj = type(obj).from_dict(obj.to_dict())
    elif path == 'json1':
        obj = json.loads(json.dumps(obj, cls=pmuttEncoder), object_hook=json_to_pmutt)
    ctx.label('cls:' + case['species']['cls'], 'path:' + path, 'phase:%s' % phase)
    # --- which models should be attached ----------------------------------------
    user_p = sum(1 for m in case['models'] if m is not None and m['kind'] == 'P')
    want_p = user_p
    if is_gas and case['add'] is not False and user_p == 0:
        want_p = 1
    attached = obj.misc_models if obj.misc_models is not None else []
    n_p = sum(1 for m in attached if isinstance(m, GasPressureAdj))
    if n_p != want_p:
        ctx.fail('C13.corr/pressure-adjustment-count:%s' % ('gas' if is_gas else 'non-gas'),
                 'phase=%r add=%r user-supplied=%d path=%s: %d attached, expected %d' % (
                     phase, case['add'], user_p, path, n_p, want_p))
    # --- a species of another phase built afterwards from the very same list object carries none -------------
    if supplied is not None and user_p == 0:
        for ph2 in ('s', None):
            sib = _construct(case, ph2, supplied, 'default')
            n2 = sum(1 for m in (sib.misc_models or []) if isinstance(m, GasPressureAdj))
            if n2:
                ctx.fail('C13.corr/pressure-adjustment-count:non-gas-sibling',
                         'a phase=%r species built from the list a phase=%r species was built from carries %d '
                         'pressure adjustment(s)' % (ph2, phase, n2))
                break
            s1 = np.ravel(np.asarray(sib.get_SoR(T=case['T'][0], P=case['P'], x=0.0), dtype=float))[0]
            s0 = np.ravel(np.asarray(sib.get_SoR(T=case['T'][0], P=1.0, x=0.0), dtype=float))[0]
            if s1 != s0:
                ctx.fail('C13.corr/non-gas-entropy-depends-on-P', 'phase=%r: S/R %r at P=%r, %r at 1 bar' % (ph2, s1, case['P'], s0))
                break
    covs = [m for m in case['models'] if m is not None and m['kind'] == 'cov']
    n_cov = sum(1 for m in attached if isinstance(m, PiecewiseCovEffect))
    if n_cov != len(covs):
        ctx.fail('C13.corr/coverage-model-count', 'path=%s: %d attached, expected %d (types %r)' % (
            path, n_cov, len(covs), [type(m).__name__ for m in attached]))
        return
    # --- value = bare + sum of contributions -------------------------------------
    kw = {'P': case['P']}
    for a in case.get('x_order', list(case['x'])):     # keyword order of the per-species blocks is part of the case
        kw['%s_kwargs' % a] = {'x': case['x'][a]}
    if case['x_global'] is not None:
        kw['x'] = case['x_global']
    Ts = case['T']
    Targ = Ts[0] if case['scalar_T'] else (np.array(Ts) if case['container'] == 'ndarray' else list(Ts))
    ref_cov = [PiecewiseCovEffect(name_i='X', name_j=m['name_j'], intervals=list(m['intervals']),
                                  slopes=list(m['slopes'])) for m in covs]

    def contributions(q, T):
        tot = 0.0
        for m, d in zip(ref_cov, covs):
            x = case['x'][d['name_j']]      # the per-species block overrides the global x
            if q in ('HoRT', 'GoRT'):
                tot += m.get_HoRT(x=x, T=T)
        if want_p and q in ('SoR', 'GoRT'):
            s = -np.log(case['P']) * want_p
            tot += s if q == 'SoR' else -s
        return tot
    tdep = len(covs) > 0 and not case['scalar_T'] and len(Ts) >= 2
    ctx.nontrivial((len(covs) + want_p) >= 2 or tdep or path.startswith('dict') or path == 'json1')
    if tdep:
        ctx.label('array-T-with-coverage')
    ctx.label('models:%d' % (len(covs) + want_p))
    for q in ('CpoR', 'HoRT', 'SoR', 'GoRT'):
        got = getattr(obj, 'get_' + q)(T=Targ, **kw)
        got = np.ravel(np.asarray(got, dtype=float))
        n = 1 if case['scalar_T'] else len(Ts)
        if got.shape != (n,):
            ctx.fail('C13.corr/shape:%s' % q, 'T has %d entries, result shape %r' % (n, got.shape))
            continue
        exp = np.array([float(np.ravel(getattr(bare, 'get_' + q)(T=T))[0]) + contributions(q, T) for T in Ts[:n]])
        sc = np.array([abs(float(np.ravel(bare.get_HoRT(T=T))[0])) + abs(float(np.ravel(bare.get_SoR(T=T))[0]))
                       for T in Ts[:n]])
        ctx.close('C13.corr/sum:%s' % q, got, exp, rtol=1e-11, atol=1e-11 * (1 + sc),
                  detail='models=%r P=%r path=%s T=%r' % ([None if m is None else m['kind'] for m in case['models']],
                                                          case['P'], path, Ts[:3]))
    # --- S(P) = S(1 bar) - ln P for gases with their single adjustment; no P dependence otherwise ----
    T0 = Ts[0]
    kw1 = dict(kw)
    kw1['P'] = 1.0
    dS = float(np.ravel(obj.get_SoR(T=T0, **kw))[0]) - float(np.ravel(obj.get_SoR(T=T0, **kw1))[0])
    dG = float(np.ravel(obj.get_GoRT(T=T0, **kw))[0]) - float(np.ravel(obj.get_GoRT(T=T0, **kw1))[0])
    dH = float(np.ravel(obj.get_HoRT(T=T0, **kw))[0]) - float(np.ravel(obj.get_HoRT(T=T0, **kw1))[0])
    sc = 1 + abs(float(np.ravel(bare.get_SoR(T=T0))[0])) + abs(float(np.ravel(bare.get_HoRT(T=T0))[0]))
    lnP = float(np.log(case['P']))
    ctx.close('C13.corr/S(P)', dS, -want_p * lnP, rtol=1e-10, atol=1e-11 * sc)
    ctx.close('C13.corr/G(P)', dG, want_p * lnP, rtol=1e-10, atol=1e-11 * sc)
    ctx.close('C13.corr/H(P)', dH, 0.0, rtol=0, atol=1e-11 * sc)


CLAUSES = [
    Clause('C13.corr', corr_case(), check_corr, 700, 4000,
           'Nasa / Nasa9 / Shomate x phase in {g, gas, G, Gas, s, S, None} x 0-4 attached models in any order (at most one '
           'GasPressureAdj, 1-4-breakpoint PiecewiseCovEffects on three adsorbates, None entries) x add_gas_P_adj '
           '{default, True, False} x scalar T or arrays/lists of 1-50 temperatures x P 1e-3..1e2 x coverages through per-species '
           'blocks (and a global x) x path {direct, deepcopy, 1-3 to_dict/from_dict cycles, JSON, from_data, from_model}. Oracle: bare '
           'polynomial + sum of each attached model\'s own contribution per temperature, count of pressure adjustments, '
           'S(P)-S(1)=-ln P and G accordingly for gases, no P dependence otherwise. Non-trivial = >= 2 contributing models, array '
           'T with a coverage effect, or a reload cycle', quick_shards=4),
]
ASSUMPTIONS = ['PiecewiseCovEffect and GasPressureAdj own values are taken from fresh instances (C17 judges the former)',
               'a user supplies at most one GasPressureAdj']

"""C12 - unit tables form a consistent algebra and agree with their definitions."""
import ast
import itertools
import math
import os
import re

from hypothesis import strategies as st

from vf.core import Clause, REPO

SYMBOLS = ('H He Li Be B C N O F Ne Na Mg Al Si P S Cl Ar K Ca Sc Ti V Cr Mn Fe Co Ni Cu Zn Ga Ge As Se Br Kr '
           'Rb Sr Y Zr Nb Mo Tc Ru Rh Pd Ag Cd In Sn Sb Te I Xe Cs Ba La Ce Pr Nd Pm Sm Eu Gd Tb Dy Ho Er Tm Yb '
           'Lu Hf Ta W Re Os Ir Pt Au Hg Tl Pb Bi Po At Rn Fr Ra Ac Th Pa U Np Pu Am Cm Bk Cf Es Fm Md No Lr Rf '
           'Db Sg Bh Hs Mt Ds Rg Cn Nh Fl Mc Lv Ts Og').split()
ALIASES = {113: ['Uut', 'Nh'], 115: ['Uup', 'Mc'], 117: ['Uus', 'Ts'], 118: ['Uuo', 'Og']}
NAMES = {1: 'hydrogen', 2: 'helium', 6: 'carbon', 7: 'nitrogen', 8: 'oxygen'}  # only used if the table has names


def symbols_of(z):
    return ALIASES.get(z, [SYMBOLS[z - 1]])


# --- uncertainty of the tabulated literals, read from the current source -------
_NUM = re.compile(r'(?<![\w.])(\d+\.?\d*|\.\d+)(?:[eE][+-]?\d+)?')


def _lit_rel(text):
    """Relative half-ulp of one numeric literal; <= 2 significant digits = exact."""
    m = re.match(r'^(\d*\.?\d*)', text)
    mant = m.group(1)
    digits = mant.replace('.', '').lstrip('0')
    if len(digits) <= 2:
        return 0.0
    if '.' in mant:
        ndec = len(mant.split('.')[1])
    else:
        ndec = 0
    val = float(mant)
    if val == 0:
        return 0.0
    return 0.5 * 10.0 ** (-ndec) / val


def _expr_rel(src):
    return sum(_lit_rel(m.group(0)) for m in _NUM.finditer(src))


_TABLES = None


def tables():
    """name -> {key: relative rounding uncertainty of its source expression}."""
    global _TABLES
    if _TABLES is not None:
        return _TABLES
    path = os.path.join(REPO, 'pmutt', 'constants.py')
    src = open(path).read()
    tree = ast.parse(src)
    out = {}
    for node in ast.walk(tree):
        if isinstance(node, ast.Assign) and len(node.targets) == 1 and \
                isinstance(node.targets[0], ast.Name) and isinstance(node.value, ast.Dict):
            name = node.targets[0].id
            d = {}
            for k, v in zip(node.value.keys, node.value.values):
                if isinstance(k, ast.Constant):
                    d[k.value] = _expr_rel(ast.get_source_segment(src, v) or '')
            out.setdefault(name, {}).update(d)
    # scalar module constants
    for node in tree.body:
        if isinstance(node, ast.Assign) and isinstance(node.targets[0], ast.Name) and \
                node.targets[0].id in ('Na', 'e'):
            out[node.targets[0].id] = _expr_rel(ast.get_source_segment(src, node.value) or '')
    _TABLES = out
    return out


def u_rel(unit):
    """rounding uncertainty of a convert_unit table entry (1e-6 if the source
    could not be read: harness stays sound, only less sharp)."""
    t = tables().get('unit_dict', {})
    return t.get(unit, 1e-6)


def tab_rel(table, key):
    return tables().get(table, {}).get(key, 1e-6)


def tol(*rels):
    return max(1e-9, 2.0 * sum(rels))


def units_by_type():
    from pmutt import constants as c
    by = {}
    for u, t in c.type_dict.items():
        by.setdefault(t, []).append(u)
    return by


def conv(x, u, v):
    from pmutt import constants as c
    return c.convert_unit(num=x, initial=u, final=v)


# ---------------------------------------------------------------------------
def enum_algebra(tier):
    by = units_by_type()
    for t in sorted(by):
        us = by[t]
        for u in us:
            for v in us:
                yield {'kind': 'pair', 'type': t, 'u': u, 'v': v}
        for u, v, w in itertools.product(us, repeat=3):
            yield {'kind': 'triple', 'type': t, 'u': u, 'v': v, 'w': w}
    allu = [u for t in sorted(by) for u in by[t]]
    from pmutt import constants as c
    for u in allu:
        for v in allu:
            if c.type_dict[u] != c.type_dict[v]:
                yield {'kind': 'cross', 'u': u, 'v': v}
    for u in allu:
        yield {'kind': 'unknown', 'u': u}


XS = [1.0, -3.5, 273.15, 1e-12, 6.02e23, 0.0]


def check_algebra(case, ctx):
    k = case['kind']
    u = case['u']
    if k == 'unknown':
        for a, b in ((u, 'no-such-unit'), ('no-such-unit', u)):
            try:
                r = conv(1.0, a, b)
            except ValueError:
                continue
            ctx.fail('C12.algebra/unknown-unit-accepted', '%s->%s gave %r' % (a, b, r))
        return
    v = case['v']
    if k == 'cross':
        ctx.nontrivial(True)
        try:
            r = conv(1.0, u, v)
        except ValueError:
            return
        ctx.fail('C12.algebra/cross-type-accepted', '%s -> %s returned %r' % (u, v, r))
        return
    temp = case['type'] == 'temp'
    ctx.nontrivial(u != v)
    for x in XS:
        s = abs(x) + (600.0 if temp else 0.0)  # affine offsets enter the rounding
        if k == 'pair':
            if u == v:
                ctx.close('C12.algebra/reflexive', conv(x, u, u), x, rtol=1e-15, detail=u)
            y = conv(x, u, v)
            ctx.close('C12.algebra/inverse', conv(y, v, u), x, rtol=1e-12, atol=1e-12 * s if temp else 0.0,
                      detail='%s<->%s x=%r' % (u, v, x))
            if not temp:
                ctx.close('C12.algebra/proportional', conv(3.0 * x, u, v), 3.0 * y, rtol=1e-13,
                          detail='%s->%s' % (u, v))
                f = conv(None, u, v)
                ctx.close('C12.algebra/factor-form', f * x, y, rtol=1e-13, detail='%s->%s' % (u, v))
                if x == 0.0 and y != 0.0:
                    ctx.fail('C12.algebra/zero-not-zero', '%s->%s gives %r' % (u, v, y))
            else:
                # affine: midpoint maps to midpoint
                y2 = conv(x + 100.0, u, v)
                ym = conv(x + 50.0, u, v)
                ctx.close('C12.algebra/affine', ym, 0.5 * (y + y2), rtol=1e-12, atol=1e-11 * s,
                          detail='%s->%s' % (u, v))
        else:
            w = case['w']
            ctx.close('C12.algebra/transitive', conv(conv(x, u, v), v, w), conv(x, u, w), rtol=1e-12,
                      atol=1e-12 * s if temp else 0.0, detail='%s->%s->%s x=%r' % (u, v, w, x))
    if k == 'pair' and temp:
        # textbook anchor points (exact by definition of the scales)
        anchors = {'K': 273.15, 'C': 0.0, 'F': 32.0, 'R': 491.67}
        ctx.close('C12.algebra/temp-anchor', conv(anchors[u], u, v), anchors[v], rtol=1e-12, atol=1e-10,
                  detail='%s->%s' % (u, v))
        boil = {'K': 373.15, 'C': 100.0, 'F': 212.0, 'R': 671.67}
        ctx.close('C12.algebra/temp-anchor', conv(boil[u], u, v), boil[v], rtol=1e-12, atol=1e-10,
                  detail='%s->%s' % (u, v))


# ---------------------------------------------------------------------------
LENGTH_FAMILY = [('m', 'm2', 'm3'), ('cm', 'cm2', 'cm3'), ('A', 'A2', None), ('km', 'km2', None),
                 ('inch', 'inch2', 'inch3'), ('ft', 'ft2', 'ft3')]
VOLS = {'L': 'L', 'cm3': 'cm3', 'm3': 'm3', 'mL': 'mL'}
PRESS = {'kPa', 'Pa', 'MPa', 'bar', 'torr', 'atm', 'psi', 'mmHg'}


def enum_derived(tier):
    from pmutt import constants as c
    td = c.type_dict
    for L, A, V in LENGTH_FAMILY:
        if L in td and A in td:
            yield {'rel': 'area', 'L': L, 'A': A}
        if V and L in td and V in td:
            yield {'rel': 'volume', 'L': L, 'V': V}
    yield {'rel': 'mL=cm3'}
    yield {'rel': 'L=dm3'}
    by = units_by_type()
    for u in by.get('energy', []):
        parts = u.split(' ')
        if len(parts) == 2 and parts[0] in td and parts[1] in td and \
                td[parts[0]] == 'volume' and td[parts[1]] == 'pressure':
            yield {'rel': 'composite-energy', 'u': u, 'vol': parts[0], 'press': parts[1]}
    for u in by.get('energy/amount', []):
        base = u.split('/')[0]
        if base in td and td[base] == 'energy':
            yield {'rel': 'molar-energy', 'u': u, 'base': base, 'per': u.split('/')[1]}
    for u in by.get('amount', []):
        if u != 'mol':
            yield {'rel': 'avogadro', 'u': u}
    for a, b in (('Eh', 'Ha'), ('Eh/molecule', 'Ha/molecule'), ('Eh/particle', 'Ha/particle'),
                 ('eV/molecule', 'eV/particle'), ('mmHg', 'torr'), ('molecule', 'molec')):
        if a in td and b in td:
            yield {'rel': 'synonym', 'a': a, 'b': b}
    for name in ('R', 'kb', 'h', 'c'):
        for key in tables().get(name + '_dict', {}):
            yield {'rel': 'constant', 'name': name, 'key': key}
    for name, units in (('P0', by.get('pressure', [])), ('T0', by.get('temp', [])),
                        ('V0', by.get('volume', [])), ('m_e', by.get('mass', [])),
                        ('m_p', by.get('mass', []))):
        for u in units:
            yield {'rel': 'reference', 'name': name, 'u': u}
    yield {'rel': 'R=kb*Na'}
    yield {'rel': 'R(eV/K)=kb(eV/K)'}
    yield {'rel': 'hbar'}


def _energy_factor_from_J(key_energy):
    """Convert 1 J (or 1 J/mol for per-amount keys) to the energy part of a
    constant's unit key through convert_unit; returns (factor, rel)."""
    from pmutt import constants as c
    td = c.type_dict
    if key_energy in td and td[key_energy] == 'energy':
        return conv(1.0, 'J', key_energy), u_rel('J') + u_rel(key_energy)
    raise KeyError(key_energy)


def check_derived(case, ctx):
    from pmutt import constants as c
    r = case['rel']
    ctx.nontrivial(True)
    if r == 'area':
        L, A = case['L'], case['A']
        ctx.close('C12.derived/area=length^2:%s' % A, conv(1.0, 'm2', A), conv(1.0, 'm', L) ** 2,
                  rtol=tol(u_rel(A), 2 * u_rel(L), u_rel('m'), u_rel('m2')))
    elif r == 'volume':
        L, V = case['L'], case['V']
        ctx.close('C12.derived/volume=length^3:%s' % V, conv(1.0, 'm3', V), conv(1.0, 'm', L) ** 3,
                  rtol=tol(u_rel(V), 3 * u_rel(L), u_rel('m'), u_rel('m3')))
    elif r == 'mL=cm3':
        ctx.close('C12.derived/mL=cm3', conv(1.0, 'mL', 'cm3'), 1.0, rtol=tol(u_rel('mL'), u_rel('cm3')))
    elif r == 'L=dm3':
        ctx.close('C12.derived/L=dm3', conv(1.0, 'L', 'cm3'), 1000.0, rtol=tol(u_rel('L'), u_rel('cm3')))
    elif r == 'composite-energy':
        u, V, P = case['u'], case['vol'], case['press']
        expect = conv(1.0, V, 'm3') * conv(1.0, P, 'Pa')   # joules in one <vol press>
        ctx.close('C12.derived/composite-energy:%s' % u, conv(1.0, u, 'J'), expect,
                  rtol=tol(u_rel(u), u_rel(V), u_rel(P), u_rel('J'), u_rel('m3'), u_rel('Pa')))
    elif r == 'molar-energy':
        u, base, per = case['u'], case['base'], case['per']
        if per == 'mol':
            expect = conv(1.0, 'J', base)
            ctx.close('C12.derived/molar-energy:%s' % u, conv(1.0, 'J/mol', u), expect,
                      rtol=tol(u_rel(u), u_rel(base), u_rel('J'), u_rel('J/mol')))
        else:
            # per molecule / particle: (J/mol) -> (X per molecule) = X-per-J / Na
            expect = conv(1.0, 'J', base) / c.Na
            ctx.close('C12.derived/molecular-energy:%s' % u, conv(1.0, 'J/mol', u), expect,
                      rtol=tol(u_rel(u), u_rel(base), u_rel('J'), u_rel('J/mol'), tab_rel('Na', None)
                               if False else tables().get('Na', 1e-9)))
    elif r == 'avogadro':
        ctx.close('C12.derived/avogadro:%s' % case['u'], conv(1.0, 'mol', case['u']), c.Na,
                  rtol=tol(u_rel(case['u']), tables().get('Na', 1e-9)))
    elif r == 'synonym':
        ctx.close('C12.derived/synonym:%s' % case['a'], conv(1.0, case['a'], case['b']), 1.0,
                  rtol=tol(u_rel(case['a']), u_rel(case['b'])))
    elif r == 'constant':
        name, key = case['name'], case['key']
        fn = getattr(c, name)
        val = fn(key)
        trel = tab_rel(name + '_dict', key)
        if name == 'R':
            si = c.R('J/mol/K')
            srel = tab_rel('R_dict', 'J/mol/K')
            head = key[:-len('/K')] if key.endswith('/K') else key
            if head.endswith('/mol'):
                head = head[:-len('/mol')]
                parts = head.split(' ')
                if len(parts) == 2:
                    V, P = parts
                    expect = si * conv(1.0, 'm3', V) * conv(1.0, 'Pa', P)
                    rels = (u_rel(V), u_rel(P), u_rel('m3'), u_rel('Pa'))
                else:
                    expect = si * conv(1.0, 'J/mol', head + '/mol')
                    rels = (u_rel(head + '/mol'), u_rel('J/mol'))
            else:  # per-molecule forms eV/K, Eh/K, Ha/K
                expect = si * conv(1.0, 'J/mol', head + '/molecule')
                rels = (u_rel(head + '/molecule'), u_rel('J/mol'))
            ctx.close('C12.derived/R:%s' % key, val, expect, rtol=tol(trel, srel, *rels))
        elif name == 'kb':
            si = c.kb('J/K')
            head = key[:-len('/K')]
            expect = si * conv(1.0, 'J', head)
            ctx.close('C12.derived/kb:%s' % key, val, expect,
                      rtol=tol(trel, tab_rel('kb_dict', 'J/K'), u_rel(head), u_rel('J')))
        elif name == 'h':
            si = c.h('J s')
            head = key[:-len(' s')]
            expect = si * conv(1.0, 'J', head)
            # a deviation below 3e-8 is the CODATA-generation mismatch between the h table and the
            # eV / Hartree conversion factors (its own signature); anything larger is something else
            small = abs(val - expect) <= 3e-8 * abs(expect)
            ctx.close('C12.derived/h:%s%s' % (key, ':below-3e-8' if small else ''), val, expect,
                      rtol=tol(trel, tab_rel('h_dict', 'J s'), u_rel(head), u_rel('J')))
        elif name == 'c':
            si = c.c('m/s')
            head = key[:-len('/s')]
            ctx.close('C12.derived/c:%s' % key, val, si * conv(1.0, 'm', head),
                      rtol=tol(trel, tab_rel('c_dict', 'm/s'), u_rel(head), u_rel('m')))
    elif r == 'reference':
        name, u = case['name'], case['u']
        fn = getattr(c, name)
        if name == 'P0':
            ctx.close('C12.derived/P0:%s' % u, fn(u), conv(1.0, 'bar', u), rtol=1e-12)
            ctx.close('C12.derived/P0=1bar', fn('Pa'), 1.0e5, rtol=tol(u_rel('bar'), u_rel('Pa')))
        elif name == 'T0':
            ctx.close('C12.derived/T0:%s' % u, fn(u), conv(298.15, 'K', u), rtol=1e-12)
        elif name == 'V0':
            expect = c.R('J/mol/K') * 298.15 / 1.0e5 * conv(1.0, 'm3', u)
            ctx.close('C12.derived/V0:%s' % u, fn(u), expect, rtol=1e-9)
        elif name == 'm_e':
            ctx.close('C12.derived/m_e:%s' % u, fn(u), conv(fn('amu'), 'amu', u), rtol=1e-12)
            ctx.close('C12.derived/m_e(amu)', fn('amu'), 5.48579909e-4, rtol=1e-8)
        elif name == 'm_p':
            ctx.close('C12.derived/m_p:%s' % u, fn(u), conv(fn('amu'), 'amu', u), rtol=1e-12)
            ctx.close('C12.derived/m_p(amu)', fn('amu'), 1.00727646688, rtol=1e-8)
            # amu <-> kg is 1/(1000 Na)
            ctx.close('C12.derived/amu-per-kg', conv(1.0, 'kg', 'amu'), 1000.0 * c.Na,
                      rtol=tol(u_rel('amu'), u_rel('kg'), tables().get('Na', 1e-9)))
    elif r == 'R=kb*Na':
        ctx.close('C12.derived/R=kb*Na', c.R('J/mol/K'), c.kb('J/K') * c.Na,
                  rtol=tol(tab_rel('R_dict', 'J/mol/K'), tab_rel('kb_dict', 'J/K'), tables().get('Na', 1e-9)))
    elif r == 'R(eV/K)=kb(eV/K)':
        for k in ('eV/K', 'Eh/K', 'Ha/K'):
            ctx.close('C12.derived/R=kb:%s' % k, c.R(k), c.kb(k),
                      rtol=tol(tab_rel('R_dict', k), tab_rel('kb_dict', k)))
    elif r == 'hbar':
        for k in tables().get('h_dict', {'J s': 0}):
            ctx.close('C12.derived/hbar:%s' % k, c.h(k, bar=True), c.h(k) / (2 * math.pi), rtol=1e-15)


# ---------------------------------------------------------------------------
pos = st.floats(math.log(1e-6), math.log(1e6)).map(math.exp)


def check_spectro(case, ctx):
    from pmutt import constants as c
    x = case['x']
    ctx.nontrivial(True)
    pairs = [('energy_to_freq', 'freq_to_energy'), ('energy_to_temp', 'temp_to_energy'),
             ('energy_to_wavenumber', 'wavenumber_to_energy'), ('freq_to_temp', 'temp_to_freq'),
             ('freq_to_wavenumber', 'wavenumber_to_freq'), ('temp_to_wavenumber', 'wavenumber_to_temp'),
             ('debye_to_einstein', 'einstein_to_debye')]
    for f, g in pairs:
        F, G = getattr(c, f), getattr(c, g)
        ctx.close('C12.spectro/inverse:%s' % f, G(F(x)), x, rtol=1e-12)
        ctx.close('C12.spectro/inverse:%s' % g, F(G(x)), x, rtol=1e-12)
    # commuting triangle: wavenumber -> freq -> energy -> temp
    ctx.close('C12.spectro/triangle:w-f-e', c.freq_to_energy(c.wavenumber_to_freq(x)),
              c.wavenumber_to_energy(x), rtol=1e-12)
    ctx.close('C12.spectro/triangle:w-e-T', c.energy_to_temp(c.wavenumber_to_energy(x)),
              c.wavenumber_to_temp(x), rtol=1e-12)
    ctx.close('C12.spectro/triangle:f-e-T', c.energy_to_temp(c.freq_to_energy(x)), c.freq_to_temp(x),
              rtol=1e-12)
    # definitions: E = h nu, E = kB T, nu = c * wavenumber
    ctx.close('C12.spectro/E=h*nu', c.freq_to_energy(x), c.h('J s') * x, rtol=1e-14)
    ctx.close('C12.spectro/E=kB*T', c.temp_to_energy(x), c.kb('J/K') * x, rtol=1e-14)
    ctx.close('C12.spectro/nu=c*w', c.wavenumber_to_freq(x), c.c('cm/s') * x, rtol=1e-14)
    # rotational constant B[1/cm] <-> moment of inertia <-> rotational temperature
    I = c.wavenumber_to_inertia(x)
    ctx.close('C12.spectro/I-definition', I, c.h('J s') / (8 * math.pi ** 2 * c.c('cm/s') * x), rtol=1e-13)
    # eV-based route inside inertia_to_temp against the J-based wavenumber_to_temp:
    # limited by the eV literals (h, kb in eV and the J/eV factor)
    t = tol(tab_rel('h_dict', 'eV s') * 2, tab_rel('kb_dict', 'eV/K'), u_rel('eV'), tab_rel('h_dict', 'J s'),
            tab_rel('kb_dict', 'J/K'))
    ctx.close('C12.spectro/inertia-temp', c.inertia_to_temp(I), c.wavenumber_to_temp(x), rtol=t)
    ctx.close('C12.spectro/debye-einstein', c.debye_to_einstein(x), (math.pi / 6.0) ** (1.0 / 3.0) * x,
              rtol=1e-14)


def enum_elements(tier):
    for z in range(1, 119):
        yield {'kind': 'element', 'z': z}


def check_elements(case, ctx):
    import pmutt
    from pmutt import constants as c
    z = case['z']
    for tname in ('atomic_weight', 'S_elements'):
        table = getattr(c, tname)
        syms = [s for s in symbols_of(z) if s in table]
        have_z = z in table
        if not have_z and not syms:
            continue
        ctx.nontrivial(True)
        if have_z != bool(syms):
            ctx.fail('C12.elements/%s:only-one-form' % tname, 'Z=%d number:%s symbols:%s' % (z, have_z, syms))
            continue
        for s in syms:
            if table[z] != table[s]:
                ctx.fail('C12.elements/%s:number-vs-symbol' % tname, 'Z=%d %r vs %s %r' % (z, table[z], s, table[s]))
    if z in c.atomic_weight:
        s = [s for s in symbols_of(z) if s in c.atomic_weight]
        if s:
            w = c.atomic_weight[z]
            ctx.close('C12.elements/mw-single', pmutt.get_molecular_weight({s[0]: 1}), w, rtol=1e-15)
            ctx.close('C12.elements/mw-by-number', pmutt.get_molecular_weight({z: 2}), 2 * w, rtol=1e-15)
            ctx.close('C12.elements/mw-formula', pmutt.get_molecular_weight('%s3' % s[0]), 3 * w, rtol=1e-14)
            # plausibility: atomic weights increase roughly with Z (catches swapped rows)
            if not (0.9 * z <= w <= 3.0 * z + 2):
                ctx.fail('C12.elements/implausible-weight', 'Z=%d weight %r' % (z, w))


@st.composite
def composition(draw):
    n = draw(st.integers(1, 5))
    zs = draw(st.lists(st.integers(1, 112), min_size=n, max_size=n, unique=True))
    counts = [draw(st.one_of(st.integers(1, 999), st.floats(0.25, 20))) for _ in zs]
    return {'z': zs, 'n': counts, 'by': draw(st.lists(st.booleans(), min_size=n, max_size=n))}


def check_mw(case, ctx):
    import pmutt
    from pmutt import constants as c
    comp = {}
    total = 0.0
    form = ''
    all_int = True
    for z, n, bynum in zip(case['z'], case['n'], case['by']):
        sym = SYMBOLS[z - 1]
        comp[z if bynum else sym] = n
        total += c.atomic_weight[sym] * n
        if isinstance(n, int):
            form += '%s%d' % (sym, n) if n != 1 else sym
        else:
            all_int = False
    ctx.nontrivial(len(comp) >= 2)
    ctx.close('C12.mw/weighted-sum', pmutt.get_molecular_weight(comp), total, rtol=1e-13)
    if all_int:
        ctx.label('formula-string')
        ctx.close('C12.mw/formula-string', pmutt.get_molecular_weight(form), total, rtol=1e-13,
                  detail=form)
        # the weight of a formula does not depend on what a caller did with an earlier parse of the same text,
        # nor is the caller's own composition dictionary touched
        parsed = pmutt.parse_formula(form)
        for k_ in list(parsed):
            parsed[k_] += 1
        ctx.close('C12.mw/formula-string-after-edit', pmutt.get_molecular_weight(form), total, rtol=1e-13, detail=form)
    before = dict(comp)
    pmutt.get_molecular_weight(comp)
    if comp != before:
        ctx.fail('C12.mw/composition-modified', '%r -> %r' % (before, comp))


@st.composite
def numeric(draw):
    by = units_by_type()
    t = draw(st.sampled_from(sorted(by)))
    us = by[t]
    u, v, w = (draw(st.sampled_from(us)) for _ in range(3))
    mag = draw(st.floats(-12, 12))
    sign = draw(st.sampled_from([1.0, -1.0]))
    x = draw(st.one_of(st.just(0.0), st.just(sign * 10.0 ** mag), st.floats(-1e3, 1e3).map(lambda q: 0.0 if abs(q) < 1e-12 else q)))
    k = draw(st.floats(-50, 50).map(lambda q: 0.0 if abs(q) < 1e-9 else q))
    return {'type': t, 'u': u, 'v': v, 'w': w, 'x': x, 'k': k}


def check_numeric(case, ctx):
    u, v, w, x, k = case['u'], case['v'], case['w'], case['x'], case['k']
    temp = case['type'] == 'temp'
    ctx.nontrivial(len({u, v, w}) >= 2)
    s = abs(x) + (600.0 if temp else 0.0)
    y = conv(x, u, v)
    ctx.close('C12.numeric/inverse', conv(y, v, u), x, rtol=1e-12, atol=1e-12 * s if temp else 0.0,
              detail='%s %s %r' % (u, v, x))
    ctx.close('C12.numeric/transitive', conv(y, v, w), conv(x, u, w), rtol=1e-12,
              atol=1e-12 * s if temp else 0.0, detail='%s %s %s %r' % (u, v, w, x))
    ctx.close('C12.numeric/reflexive', conv(x, u, u), x, rtol=1e-15, detail='%s %r' % (u, x))
    if not temp:
        ctx.close('C12.numeric/proportional', conv(k * x, u, v), k * y, rtol=1e-13,
                  detail='%s %s %r*%r' % (u, v, k, x))
    else:
        # affine: conv(x+k) - conv(x) independent of x
        d1 = conv(x + k, u, v) - y
        d2 = conv(k, u, v) - conv(0.0, u, v)
        ctx.close('C12.numeric/affine', d1, d2, rtol=1e-10, atol=1e-10 * (s + abs(k) + 600),
                  detail='%s %s %r %r' % (u, v, x, k))


CLAUSES = [
    Clause('C12.algebra', None, check_algebra, 0, 0,
           'exhaustive: every ordered pair and triple of units inside each quantity type (6 test values incl. 0), '
           'every cross-type pair (must raise ValueError), unknown unit on either side; non-trivial = u != v',
           enumerate=enum_algebra),
    Clause('C12.derived', None, check_derived, 0, 0,
           'exhaustive over the definitional relations readable from the tables (area/volume vs length, '
           'composite volume*pressure energies, molar vs molecular energies, Avogadro, synonyms, every key of the '
           'R/kb/h/c tables vs its SI entry pushed through convert_unit, P0/T0/V0/m_e/m_p, R=kb*Na); tolerance '
           '= 2 x sum of the relative half-ulps of the source literals involved (read with ast), floor 1e-9',
           enumerate=enum_derived),
    Clause('C12.elements', None, check_elements, 0, 0,
           'exhaustive Z=1..118: weight / element entropy by atomic number = by symbol, both forms present; '
           'molar mass of X, X2 (by number) and X3 (formula string)', enumerate=enum_elements),
    Clause('C12.spectro', st.fixed_dictionaries({'x': pos}), check_spectro, 300, 3000,
           'x log-uniform 1e-6..1e6: every helper pair mutually inverse, commuting triangles, definitions; all cases non-trivial'),
    Clause('C12.mw', composition(), check_mw, 400, 5000,
           '1-5 distinct elements (by symbol or atomic number), integer counts 1-999 or fractional; non-trivial = >= 2 elements'),
    Clause('C12.numeric', numeric(), check_numeric, 1500, 20000,
           'random (type, u, v, w) and x in +-1e-12..1e12 or 0, k in +-50: inverse, transitive, reflexive, '
           'proportional / affine; non-trivial = at least two distinct units'),
]
ASSUMPTIONS = ['the significant digits of each tabulated literal are read from the current constants.py with ast; '
               'literals with <= 2 significant digits are taken as exact',
               'periodic table (Z -> symbol) hard-coded in the harness; 113/115/117/118 accept old and new symbols']

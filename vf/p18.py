"""C18 - identifier ranges and CTI line wrapping preserve their contents."""
import itertools
import re

from hypothesis import strategies as st

from vf.core import Clause

PREFIX_ALPHA = 'ABCDEFGHIJKLMNOPQRSTUVWXYZabcdefghijklmnopqrstuvwxyz0123456789-'


class _WithId:
    def __init__(self, v):
        self.id = v

    def __str__(self):
        return 'obj(id=%r)' % (self.id,)


class _WithName:
    def __init__(self, v):
        self.name = v

    def __str__(self):
        return 'obj(name=%r)' % (self.name,)


@st.composite
def range_case(draw):
    delim = '_'
    nprefix = draw(st.integers(1, 3))
    prefixes = []
    for _ in range(nprefix):
        kind = draw(st.sampled_from(['plain', 'plain', 'with-delim', 'empty', 'nodelim']))
        if kind == 'plain':
            prefixes.append(['p', draw(st.text(PREFIX_ALPHA, min_size=1, max_size=5))])
        elif kind == 'with-delim':
            prefixes.append(['p', draw(st.text(PREFIX_ALPHA, min_size=1, max_size=3)) + delim +
                             draw(st.text(PREFIX_ALPHA, min_size=1, max_size=3))])
        elif kind == 'empty':
            prefixes.append(['p', ''])          # id = '' + '_' + suffix
        else:
            prefixes.append(['bare', ''])       # id = suffix alone (no delimiter at all)
    n = draw(st.integers(0, 60))
    base = draw(st.integers(0, 99990))
    ids = []
    for _ in range(n):
        pk, ptxt = draw(st.sampled_from(prefixes))
        how = draw(st.sampled_from(['run', 'run', 'run', 'near', 'any']))
        if how == 'run':
            num = min(99999, base + draw(st.integers(0, 12)))
        elif how == 'near':
            num = draw(st.sampled_from([0, 1, 9, 10, 99, 100, 999, 1000, 9998, 9999, 10000, 10001, 99999]))
        else:
            num = draw(st.integers(0, 99999))
        ids.append([pk, ptxt, num])
    render = draw(st.sampled_from(['%04d'] * 6 + ['%d', '%06d', '%02d']))
    return {'ids': ids, 'render': render, 'form': draw(st.sampled_from(['str', 'id', 'name', 'mixed'])),
            'format': draw(st.sampled_from(['str', 'list'])),
            'order': draw(st.sampled_from(['given', 'sorted', 'reversed']))}


def _id_text(pk, ptxt, num, render):
    suf = render % num
    return suf if pk == 'bare' else '%s_%s' % (ptxt, suf)


def decode(out, fmt, delim='_'):
    """Reference decoder of the range notation -> set of id strings."""
    if isinstance(out, str):
        entries = re.findall(r'"([^"]*)"', out)
        rest = re.sub(r'"[^"]*"', '', out).replace('[', '').replace(']', '').replace(',', '').strip()
        if rest:
            raise ValueError('unparsable range text %r' % out)
    else:
        entries = []
        for e in out:
            m = re.fullmatch(r'\s*"([^"]*)"\s*', e)
            if not m:
                raise ValueError('unparsable list entry %r' % (e,))
            entries.append(m.group(1))
    ids = set()
    for e in entries:
        if ' to ' in e:
            a, b = e.split(' to ')
            ia, ib = a.rfind(delim), b.rfind(delim)
            ha, fa = a[:ia + 1], a[ia + 1:]
            hb, fb = b[:ib + 1], b[ib + 1:]
            if ha != hb or not fa.isdigit() or not fb.isdigit() or int(fa) > int(fb):
                raise ValueError('bad range entry %r' % e)
            for k in range(int(fa), int(fb) + 1):
                ids.add(ha + str(k).zfill(len(fa)))
        else:
            ids.add(e)
    return ids


def check_range(case, ctx):
    from pmutt.cantera import _get_omkm_range
    render = case['render']
    texts = [_id_text(pk, ptxt, num, render) for pk, ptxt, num in case['ids']]
    if case['order'] == 'sorted':
        texts = sorted(texts)
    elif case['order'] == 'reversed':
        texts = texts[::-1]
    form = case['form']
    objs = []
    for i, t in enumerate(texts):
        f = form if form != 'mixed' else ('str', 'id', 'name')[i % 3]
        objs.append(t if f == 'str' else (_WithId(t) if f == 'id' else _WithName(t)))
    out = _get_omkm_range(objs=objs, format=case['format'])
    try:
        got = decode(out, case['format'])
    except ValueError as e:
        ctx.fail('C18.range/malformed-output', '%s for ids %r' % (e, texts))
        return
    want = set(texts)
    prefixes = {(pk, p) for pk, p, _ in case['ids']}
    nums = sorted({n for _, _, n in case['ids']})
    gap = any(b - a > 1 for a, b in zip(nums, nums[1:]))
    ctx.nontrivial(len(prefixes) >= 2 and gap and len(texts) > len(want))
    ctx.label('render:' + render, 'format:' + case['format'])
    if any(pk == 'p' and p == '' for pk, p in prefixes):
        ctx.label('empty-prefix')
    if any('_' in p for _, p in prefixes):
        ctx.label('prefix-contains-delimiter')
    if got == want:
        return
    # classify the difference: which input ids were renamed, and how
    canon = {}
    for pk, ptxt, num in case['ids']:
        t = _id_text(pk, ptxt, num, render)
        c4 = _id_text(pk, ptxt, num, '%04d')
        canon[t] = c4
    lost = want - got
    extra = got - want
    explained_width = {t for t in lost if canon[t] != t and canon[t] in got}
    if lost and lost == explained_width and extra <= {canon[t] for t in explained_width}:
        ctx.fail('C18.range/renamed:suffix-not-in-%04d-form',
                 'ids %r -> %r (re-rendered with %%04d)' % (sorted(lost)[:4], sorted(extra)[:4]))
        return
    ctx.fail('C18.range/set-changed', 'ids %r lost %r extra %r output %r' % (
        texts[:12], sorted(lost)[:6], sorted(extra)[:6], out if isinstance(out, str) else out[:8]))


def enum_small(tier):
    universe = ['p_%04d' % i for i in range(7)] + ['q_0003', 'q_0004']
    for mask in range(1 << len(universe)):
        ids = [u for k, u in enumerate(universe) if mask >> k & 1]
        for fmt in ('str', 'list'):
            yield {'ids': ids, 'format': fmt}


def check_small(case, ctx):
    from pmutt.cantera import _get_omkm_range
    ids = case['ids']
    out = _get_omkm_range(objs=list(reversed(ids)), format=case['format'])
    ctx.nontrivial(len(ids) >= 2)
    try:
        got = decode(out, case['format'])
    except ValueError as e:
        ctx.fail('C18.small/malformed-output', '%s for ids %r' % (e, ids))
        return
    if got != set(ids):
        ctx.fail('C18.small/set-changed', 'ids %r decoded %r output %r' % (ids, sorted(got), out))
    # maximal runs are compressed: number of entries = number of maximal consecutive runs per prefix
    entries = re.findall(r'"([^"]*)"', out) if isinstance(out, str) else list(out)
    runs = 0
    for pre in ('p', 'q'):
        ns = sorted(int(i.split('_')[1]) for i in ids if i.startswith(pre))
        runs += sum(1 for k, n in enumerate(ns) if k == 0 or n - ns[k - 1] > 1)
    if ids and len(entries) != runs:
        ctx.fail('C18.small/not-compressed', 'ids %r entries %r' % (ids, entries))


# ---------------------------------------------------------------------------
reject_case = st.fixed_dictionaries({
    'good': st.lists(st.integers(0, 50), min_size=0, max_size=4),
    'bad': st.sampled_from(['r_abc', 'r_12a', 'r_', 'r_1.5', 'abc', 'r_0001x', 'x-1a', 'r_0x10', '']),
    'badkind': st.sampled_from(['suffix', 'suffix', 'int-id', 'float-id', 'none-id', 'obj-int-id']),
    'pos': st.integers(0, 4), 'format': st.sampled_from(['str', 'list'])})


def check_reject(case, ctx):
    from pmutt.cantera import _get_omkm_range
    ids = ['r_%04d' % n for n in case['good']]
    kind = case['badkind']
    if kind == 'suffix':
        bad, exc = case['bad'], ValueError
    elif kind == 'int-id':
        bad, exc = 7, TypeError
    elif kind == 'float-id':
        bad, exc = 1.5, TypeError
    elif kind == 'none-id':
        bad, exc = None, TypeError
    else:
        bad, exc = _WithId(12), TypeError
    pos = case['pos'] % (len(ids) + 1)
    objs = ids[:pos] + [bad] + ids[pos:]
    ctx.nontrivial(len(ids) >= 1)
    ctx.label('bad:' + kind)
    try:
        out = _get_omkm_range(objs=objs, format=case['format'])
    except exc:
        return
    except (ValueError, TypeError) as e:
        # rejected, with the other of the two documented error types: still a rejection
        ctx.label('rejected-with-%s' % type(e).__name__)
        return
    ctx.fail('C18.reject/accepted:%s' % kind, 'objs %r -> %r' % (objs, out))


# ---------------------------------------------------------------------------
TOKEN_ALPHA = 'ABCDEFGHIJKLMNOPQRSTUVWXYZabcdefghijklmnopqrstuvwxyz0123456789()*_-+.,:;=<>/[]{}|!#$%&@^~'
token = st.text(TOKEN_ALPHA, min_size=1, max_size=30)


@st.composite
def wrap_case(draw):
    n = draw(st.integers(0, 80))
    pool = draw(st.lists(token, min_size=1, max_size=12))
    toks = [draw(st.one_of(token, st.sampled_from(pool), st.sampled_from(pool))) for _ in range(n)]
    max_len = draw(st.integers(30, 100))
    indent = draw(st.integers(0, min(40, max_len - 10)))
    return {'tokens': toks, 'max_line_len': max_len, 'line_len': max_len - indent,
            'container': draw(st.sampled_from(['list', 'tuple', 'dict', 'str']))}


def check_wrap(case, ctx):
    from pmutt.io.cantera import obj_to_cti
    toks = list(case['tokens'])
    cont = case['container']
    if cont == 'list':
        obj, want = toks, toks
    elif cont == 'tuple':
        obj, want = tuple(toks), toks
    elif cont == 'str':
        obj, want = ' '.join(toks), toks
    else:
        obj = {}
        for i, t in enumerate(toks):
            obj.setdefault(t.replace(':', '_'), i)
        want = ['%s:%s' % (k, v) for k, v in obj.items()]
    L, M = case['line_len'], case['max_line_len']
    out = obj_to_cti(obj, line_len=L, max_line_len=M)
    # documented defaults: 80 characters for both widths
    if obj_to_cti(obj) != obj_to_cti(obj, line_len=80, max_line_len=80) or \
            obj_to_cti(obj, line_len=L) != obj_to_cti(obj, line_len=L, max_line_len=80):
        ctx.fail('C18.wrap/default-widths', 'omitting a width is not the same as passing the documented 80')
    lines = out.split('\n')
    ctx.nontrivial(len(lines) >= 3)
    ctx.label('lines:%s' % ('1' if len(lines) == 1 else '2' if len(lines) == 2 else '3+'))
    if len(set(want)) < len(want):
        ctx.label('repeated-token')
    if out.startswith('"""'):
        if not out.endswith('"""') or len(out) < 6:
            ctx.fail('C18.wrap/unterminated', repr(out[-40:]))
            return
        body = out[3:-3]
        got = body.split()
        for k, line in enumerate(lines):
            limit = L if k == 0 else M
            content = line.strip()
            if k == 0:
                content = content[3:] if content.startswith('"""') else content
            ntok = len(content.replace('"""', ' ').split())
            if len(line) > limit and ntok > 1:
                ctx.fail('C18.wrap/line-too-long', 'line %d has %d chars > %d with %d tokens: %r' % (
                    k, len(line), limit, ntok, line))
                break
    else:
        if not (len(out) >= 2 and out[0] == '"' and out[-1] == '"'):
            ctx.fail('C18.wrap/not-quoted', repr(out))
            return
        got = out[1:-1].split()
        if '\n' in out:
            ctx.fail('C18.wrap/short-form-multiline', repr(out))
        if len(out) > L and len(want) > 1:
            ctx.fail('C18.wrap/line-too-long', 'single-line form %d chars > %d' % (len(out), L))
    if got != want:
        ctx.fail('C18.wrap/tokens-changed', 'want %r got %r' % (want[:10], got[:10]))


CLAUSES = [
    Clause('C18.range', range_case(), check_range, 1500, 10000,
           '0-60 ids over 1-3 prefixes (plain / containing the delimiter / empty prefix "_NNNN" / no delimiter at all), '
           'suffix 0-99999 in runs, near digit-count boundaries or arbitrary, rendered %04d (mostly) or %d/%06d/%02d, as '
           'str / .id / .name objects, any order, both output formats; oracle = reference decoder expands every entry, '
           'decoded set == input set. Non-trivial = >= 2 prefixes with a gap and a duplicate'),
    Clause('C18.small', None, check_small, 0, 0,
           'exhaustive: all 512 subsets of {p_0000..p_0006, q_0003, q_0004} x {str, list}: same set, one entry per maximal run',
           enumerate=enum_small),
    Clause('C18.reject', reject_case, check_reject, 300, 3000,
           'one un-encodable member (non-integer suffix, int/float/None id, object with int id) among 0-4 good ids: must raise '
           'ValueError/TypeError'),
    Clause('C18.wrap', wrap_case(), check_wrap, 1500, 10000,
           '0-80 tokens of 1-30 printable non-blank non-quote characters (with repeats), max_line_len 30-100, line_len = '
           'max_line_len - indent (0-40), list/tuple/dict/str containers; unwrapped token sequence identical, every line within '
           'its limit unless it holds a single token, short values single quoted line. Non-trivial = >= 3 lines'),
]
# coverage-guided campaigns of the thorough tier: (clause, executions per worker, workers)
FUZZ = [('C18.range', 12000, 3), ('C18.wrap', 12000, 2)]
ASSUMPTIONS = ['"A to B" denotes the ids between the two endpoints rendered with the endpoint\'s digit count',
               'tokens contain no blanks, quotes or backslashes']

"""C04 - values with units = dimensionless value x R (x T) in that unit (/ molar mass for per-mass units)."""
import numpy as np
from hypothesis import strategies as st

from vf import gen
from vf.core import Clause, exc_site
from vf.p01 import build_mode, lsr_st
from vf.p08 import reaction_case, build_reaction

R_KEYS = ['J/mol/K', 'kJ/mol/K', 'L kPa/mol/K', 'cm3 kPa/mol/K', 'm3 Pa/mol/K', 'cm3 MPa/mol/K', 'm3 bar/mol/K',
          'L bar/mol/K', 'L torr/mol/K', 'cal/mol/K', 'kcal/mol/K', 'L atm/mol/K', 'cm3 atm/mol/K', 'eV/K', 'Eh/K', 'Ha/K']
MASS = ['g', 'kg']
QUANT = {'Cv': ('get_CvoR', False), 'Cp': ('get_CpoR', False), 'U': ('get_UoRT', True), 'H': ('get_HoRT', True),
         'S': ('get_SoR', False), 'F': ('get_FoRT', True), 'G': ('get_GoRT', True), 'E': ('get_EoRT', True)}
ELEMS = {'H': 1.008, 'C': 12.0116, 'O': 15.999, 'N': 14.007, 'Pt': 195.084}


def unit_strategy():
    molar = st.sampled_from(R_KEYS)
    permass = st.tuples(st.sampled_from([k for k in R_KEYS if '/mol' in k]), st.sampled_from(MASS)).map(
        lambda t: t[0].replace('/mol', '/' + t[1]))
    return st.one_of(molar, molar, permass)


@st.composite
def species_case(draw):
    kind = draw(st.sampled_from(['mode', 'StatMech', 'StatMech', 'Nasa', 'Nasa9', 'Shomate']))
    case = {'kind': kind, 'T': draw(gen.logf(100, 3000)), 'P': draw(gen.logf(1e-3, 1e2)),
            'quantity': draw(st.sampled_from(['Cv', 'Cp', 'U', 'H', 'S', 'F', 'G', 'E'])), 'unit': draw(unit_strategy()),
            'elements': {e: draw(st.integers(1, 6)) for e in draw(st.lists(st.sampled_from(sorted(ELEMS)), min_size=1,
                                                                           max_size=3, unique=True))}}
    if kind == 'mode':
        mk = draw(st.sampled_from(['trans', 'vib', 'vib', 'rot', 'elec']))
        if mk == 'trans':
            md = draw(gen.trans_st)
        elif mk == 'vib':
            md = draw(st.one_of(gen.harmonic_st(), gen.qrrho_st(), gen.einstein_st, gen.debye_st))
        elif mk == 'rot':
            md = draw(gen.rot_st())
        else:
            md = draw(st.one_of(gen.elec_st, lsr_st))
        case.update({'mode_kind': mk, 'mode': md})
        return case
    if kind == 'StatMech':
        d = draw(gen.statmech_desc(name='X'))
        case.update({'species': d, 'verbose': draw(st.booleans()),
                     'use_references': draw(st.booleans()),
                     'refs': draw(st.one_of(st.none(), st.floats(-50, 50))),
                     'S_elements': draw(st.booleans()), 'include_ZPE': draw(st.booleans())})
        return case
    d = draw({'Nasa': gen.nasa_desc(name='X'), 'Nasa9': gen.nasa9_desc(name='X'),
              'Shomate': gen.shomate_desc(name='X', units=R_KEYS)}[kind])
    case.update({'species': d, 'phase': draw(st.sampled_from(['g', 'G', 's', None])),
                 'cov': draw(st.one_of(st.none(), st.fixed_dictionaries({'slope': st.floats(-30, 30), 'x': st.floats(0, 1)}))),
                 'S_elements': draw(st.booleans()),
                 'array': draw(st.one_of(st.none(), st.lists(gen.logf(300, 2500), min_size=1, max_size=6)))})
    return case


def _mass(elements):
    return sum(ELEMS[e] * n for e, n in elements.items())   # g/mol


def _split_unit(u):
    """-> (molar unit key of R, mass unit or None)"""
    for m in MASS:
        if '/%s/' % m in u:
            return u.replace('/%s/' % m, '/mol/'), m
    return u, None


def check_species(case, ctx):
    """every dimensional getter of the generated object (the drawn quantity first), same unit and options"""
    qs = ['Cv', 'Cp', 'U', 'H', 'S', 'F', 'G'] + (['E'] if case['kind'] == 'StatMech' else [])
    if case['quantity'] in qs:
        qs.remove(case['quantity'])
        qs.insert(0, case['quantity'])
    for q in qs:
        _check_species_q(dict(case, quantity=q), ctx)


def _check_species_q(case, ctx):
    from pmutt import constants as c
    kind, q, u = case['kind'], case['quantity'], case['unit']
    T, P = case['T'], case['P']
    dimless, energy = QUANT[q]
    mol_u, mass_u = _split_unit(u)
    R = c.R(mol_u)
    arg_u = u[:-2] if energy else u        # energies are requested without the '/K'
    ctx.label('q:' + q, 'kind:' + kind, 'unit:%s' % ('per-mass' if mass_u else ('per-molecule' if '/mol' not in u else 'molar')))
    kw = {}
    if kind == 'mode':
        obj = build_mode(case['mode_kind'], case['mode'])
        if q == 'E':
            return
        kw = {'T': T, 'P': P}
    elif kind == 'StatMech':
        from pmutt.empirical.references import References
        refs = None
        if case['refs'] is not None:
            refs = References(offset={e: case['refs'] for e in case['elements']}, T_ref=298.15)
        d = dict(case['species'])
        d['elements'] = dict(case['elements'])
        obj = gen.build_statmech(d, references=refs)
        kw = {'T': T, 'P': P, 'use_references': case['use_references']}
        if q != 'E':
            kw['verbose'] = case['verbose']
        else:
            if case['species']['vib'] is None and case['include_ZPE']:
                ctx.label('include_ZPE-without-vibrations-skipped')     # (documented AttributeError)
                return
            kw = {'T': T, 'include_ZPE': case['include_ZPE']}
        if q in ('S', 'F', 'G') and case['S_elements']:      # (StatMech takes the option on all three)
            kw['S_elements'] = True
    else:
        from pmutt.mixture.cov import PiecewiseCovEffect
        d = dict(case['species'])
        d['elements'] = dict(case['elements'])
        d['phase'] = case['phase']
        misc = None
        if case['cov'] is not None:
            misc = [PiecewiseCovEffect(name_i='X', name_j='Y', intervals=[0.0, 0.4], slopes=[case['cov']['slope'], 1.0])]
        obj = gen.build_species(d, misc_models=misc)
        if q in ('E',):
            return
        Targ = T if case['array'] is None else np.array(case['array'])
        kw = {'T': Targ, 'P': P}
        if case['cov'] is not None:
            kw['x'] = case['cov']['x']
        if q in ('S', 'G') and case['S_elements']:
            kw['S_elements'] = True
        T = Targ
    nontriv = (abs(P - 1) > 1e-6) or mass_u is not None or '/mol' not in u or 'S_elements' in kw or 'x' in kw
    ctx.nontrivial(nontriv)
    getter = getattr(obj, 'get_' + q)
    try:
        dim = getter(units=arg_u, **kw)
    except KeyError as e:
        # per-mass units on getters that go straight to constants.R: a refusal, never a wrong number
        if mass_u is not None and exc_site(e) == 'constants.R':
            ctx.label('per-mass-refused-by-R-table')
            return
        raise
    except AttributeError as e:
        if mass_u is not None and 'per mass basis' in str(e):
            if getattr(obj, 'elements', None):
                ctx.fail('C04.species/per-mass-refused-although-elements-given:%s:%s' % (type(obj).__name__, q),
                         'unit=%s elements=%r: %s' % (u, obj.elements, e))
                return
            ctx.label('per-mass-refused-no-elements')
            return
        raise
    base = gen.call(getattr(obj, dimless), **kw)
    factor = R
    if mass_u is not None:
        factor = R / (_mass(case['elements']) * (1e-3 if mass_u == 'kg' else 1.0))
    expect = np.asarray(base, dtype=float) * factor * (np.asarray(T, dtype=float) if energy else 1.0)
    sc = np.abs(expect)
    ctx.close('C04.species/%s:%s' % (type(obj).__name__ if kind != 'mode' else 'mode', q), dim, expect, rtol=1e-12,
              atol=(1e-13 * float(np.max(sc)) if np.size(sc) else 0.0) + 1e-290,
              detail='unit=%s kw=%r' % (u, {k: v for k, v in kw.items() if k != 'T'}))
    # the option really acts on both forms: pressure moves gas entropy by -ln P in either form
    if kind in ('Nasa', 'Nasa9', 'Shomate') and case['phase'] in ('g', 'G') and q in ('S', 'G') and mass_u is None:
        kw1 = dict(kw, P=1.0)
        d_dim = np.asarray(getter(units=arg_u, **kw), dtype=float) - np.asarray(getter(units=arg_u, **kw1), dtype=float)
        sign = -1.0 if q == 'S' else 1.0
        d_exp = sign * np.log(P) * R * (np.asarray(T, dtype=float) if energy else 1.0)
        ctx.close('C04.species/pressure-acts-on-dimensional:%s' % q, d_dim, d_exp, rtol=1e-9,
                  atol=1e-11 * float(np.max(np.abs(expect))), detail='unit=%s P=%r' % (u, P))


# ---------------------------------------------------------------------------
@st.composite
def rxn_case(draw):
    base = draw(reaction_case())
    base.update({'quantity': draw(st.sampled_from(['Cv', 'Cp', 'U', 'H', 'S', 'F', 'G', 'E'])),
                 'unit': draw(st.sampled_from(R_KEYS)), 'form': draw(st.sampled_from(['state', 'delta', 'delta', 'act'])),
                 'rev': draw(st.booleans()), 'act': draw(st.booleans()), 'del_m': draw(st.sampled_from(['default', 0, None, -1, 1])),
                 'state': draw(st.sampled_from(['reactants', 'products', 'transition state']))})
    return base


def check_rxn(case, ctx):
    """every quantity x every form (state / delta / activation) on the generated reaction, drawn pair first"""
    rxn, sp = build_reaction(case)
    pairs = [(case['quantity'], case['form'])] + [(q_, f_) for q_ in ('Cv', 'Cp', 'U', 'H', 'S', 'F', 'G', 'E')
                                                  for f_ in ('state', 'delta', 'act')
                                                  if (q_, f_) != (case['quantity'], case['form'])]
    for k_, (q_, f_) in enumerate(pairs):
        _check_rxn_q(dict(case, quantity=q_, form=f_), ctx, rxn, sp, k_ == 0)


def _check_rxn_q(case, ctx, rxn, sp, drawn):
    from pmutt import constants as c
    q, u, form = case['quantity'], case['unit'], case['form']
    dimless, energy = QUANT[q]
    T, P = case['T'], case['P']
    arg_u = u[:-2] if energy else u
    kw = {'T': T, 'P': P}
    for nm, blk in case['blocks'].items():
        kw['%s_kwargs' % nm] = dict(blk)
    used = {i for i, _ in case['react'] + case['prod'] + (case['ts'] or [])}
    if q == 'E':
        if not all(case['species'][i]['cls'] == 'StatMech' for i in used):
            if drawn:
                ctx.label('E-without-StatMech-species-skipped')
            return
    has_ts = case['ts'] is not None
    ctx.label('cls:' + case['cls'], 'form:' + form, 'q:' + q)
    R = c.R(u)
    fac = R * (T if energy else 1.0)
    clamped = case['cls'] != 'Reaction' and q in ('H', 'G')
    if form == 'state':
        state = case['state']
        if state == 'transition state' and not has_ts:
            state = 'products'
        dim = getattr(rxn, 'get_%s_state' % q)(state=state, units=arg_u, **kw)
        base = getattr(rxn, 'get_%s_state' % dimless[4:])(state=state, **kw)
        ctx.nontrivial(bool(case['blocks']))
    elif form == 'delta':
        act = case['act'] and has_ts
        dim = getattr(rxn, 'get_delta_%s' % q)(units=arg_u, rev=case['rev'], act=act, **kw)
        base = getattr(rxn, 'get_delta_%s' % dimless[4:])(rev=case['rev'], act=act, **kw)
        ctx.nontrivial(case['rev'] or act)
    else:
        if not has_ts and not clamped:
            return            # activation getters need a transition state
        if not hasattr(rxn, 'get_%s_act' % q):
            return            # (no activation form of this quantity)
        if q == 'E':
            # the molecularity option of the Arrhenius energy acts on both forms (documented values: 1 default, 0, -1, None)
            opt = {} if case.get('del_m', 'default') == 'default' else {'del_m': case['del_m']}
            dim = rxn.get_E_act(units=arg_u, rev=case['rev'], **opt, **kw)
            base = rxn.get_EoRT_act(rev=case['rev'], **opt, **kw)
        else:
            dim = getattr(rxn, 'get_%s_act' % q)(units=arg_u, rev=case['rev'], **kw)
            base = getattr(rxn, 'get_%s_act' % dimless[4:])(rev=case['rev'], **kw)
        ctx.nontrivial(True)
        if case['rev']:
            ctx.label('act-rev')
    scale = 0.0
    for i in used:
        try:
            v = gen.call(getattr(sp[i], dimless if q != 'E' else 'get_EoRT'), T=T, P=P)
            scale += abs(float(np.ravel(v)[0])) * 4
        except Exception:
            pass
    ctx.close('C04.reaction/%s:%s' % (form, q), dim, base * fac, rtol=1e-12, atol=1e-12 * scale * abs(fac) + 1e-290,
              detail='cls=%s unit=%s rev=%s act=%s' % (case['cls'], u, case['rev'], case['act']))
    # the zero-point option of the electronic energy acts on both forms (a species without a vibrational model has
    # no zero-point energy to include: documented AttributeError, not asked for)
    if q == 'E' and form in ('state', 'delta') and all(case['species'][i].get('vib') is not None for i in used):
        for inc in (True, False):
            if form == 'state':
                dim = rxn.get_E_state(state=state, units=arg_u, include_ZPE=inc, **kw)
                base = rxn.get_EoRT_state(state=state, include_ZPE=inc, **kw)
            else:
                dim = rxn.get_delta_E(units=arg_u, rev=case['rev'], act=act, include_ZPE=inc, **kw)
                base = rxn.get_delta_EoRT(rev=case['rev'], act=act, include_ZPE=inc, **kw)
            ctx.close('C04.reaction/%s:E:include_ZPE=%s' % (form, inc), dim, base * fac, rtol=1e-12,
                      atol=1e-12 * scale * abs(fac) + 1e-290, detail='cls=%s unit=%s rev=%s' % (case['cls'], u, case['rev']))
        ctx.label('E:include_ZPE-both')


CLAUSES = [
    Clause('C04.species', species_case(), check_species, 800, 6000,
           'object = a mode model, a StatMech species (verbose / use_references with References / S_elements / include_ZPE) or a '
           'Nasa / Nasa9 / Shomate species (phase, coverage model + x, S_elements, scalar or array T), every quantity in '
           '{Cv,Cp,U,H,S,F,G,E} per case x unit = any key of constants.R or its per-g / per-kg form: value with units = dimensionless value '
           '(same kwargs) x R(molar unit) (x T) (/ molar mass summed by the harness); pressure shifts the dimensional entropy / '
           'Gibbs energy of gas species by -+R ln P. Non-trivial = P != 1, a per-mass or per-molecule unit, S_elements or coverage',
           quick_shards=4),
    Clause('C04.reaction', rxn_case(), check_rxn, 300, 3000,
           'C08 reactions (Reaction / ChemkinReaction / SurfaceReaction, per-species blocks) x state / delta (rev, act) / '
           'activation getters, all 8 quantities x 3 forms per case, x 16 units: dimensional = dimensionless x R (x T) with the same rev/act/kwargs. '
           'Non-trivial = rev or act set, an activation getter, or a per-species block', quick_shards=4),
]
ASSUMPTIONS = ['R(unit) from pmutt.constants (C12); atomic weights of H, C, O, N, Pt typed in the harness',
               'a KeyError from constants.R for a per-mass unit (getters that never supported it) is an accepted refusal']

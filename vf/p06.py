"""C06 - Chemkin mechanism files transcribe the model faithfully."""
import os
import re
import shutil
import tempfile

import numpy as np
from hypothesis import strategies as st

from vf import gen
from vf.core import Clause, exc_site

ELEMS = ['H', 'N', 'O', 'C']
ACT_METHODS = ['get_H_act', 'get_G_act', 'get_HoRT_act', 'get_GoRT_act', 'get_E_act', 'get_EoRT_act']
UNITS = ['kcal/mol', 'kJ/mol', 'cal/mol', 'J/mol']


def thermo_st():
    return st.fixed_dictionaries({'cp': st.floats(2, 12), 'a6': st.floats(-3e4, 1e4), 'a7': st.floats(-10, 30)})


@st.composite
def mechanism(draw):
    nel = draw(st.integers(1, 4))
    elems = ELEMS[:nel]
    comp = st.dictionaries(st.sampled_from(elems), st.integers(1, 4), min_size=1, max_size=nel)
    nsite = draw(st.integers(1, 3))
    # each site names its bulk species: all distinct, all shared, or shared by some (also non-adjacent) sites only
    share_bulk = draw(st.sampled_from(['none', 'all', 'some']))
    sites = []
    for k in range(nsite):
        bname = {'none': 'M%d(B)' % k, 'all': 'M(B)'}.get(share_bulk) or draw(st.sampled_from(['M(B)', 'M1(B)']))
        sites.append({'name': 'SITE%d' % k, 'sden': draw(gen.logf(1e-11, 1e-8)), 'density': draw(st.floats(1, 25)),
                      'bulk': bname})
    gas = [{'name': 'G%d' % i, 'elements': draw(comp), 'th': draw(thermo_st())} for i in range(draw(st.integers(1, 6)))]
    ads = []
    for j in range(draw(st.integers(1, 8))):
        k = draw(st.integers(0, nsite - 1))
        ads.append({'name': 'A%d(S%d)' % (j, k), 'site': k, 'n_sites': draw(st.integers(1, 3)), 'elements': draw(comp),
                    'th': draw(thermo_st())})
    vac = [{'name': 'V(S%d)' % k, 'site': k, 'n_sites': 1, 'elements': {}, 'th': draw(thermo_st())} for k in range(nsite)]
    bulk = [{'name': s['bulk'], 'site': k, 'elements': {}, 'th': draw(thermo_st())} for k, s in enumerate(sites)]
    rxns = []
    for m in range(draw(st.integers(1, 10))):
        kind = draw(st.sampled_from(['ads', 'ads', 'surf', 'surf', 'surf', 'gas', 'gas']))
        co = st.integers(1, 3)
        if kind == 'ads':
            a = draw(st.integers(0, len(ads) - 1))
            k = ads[a]['site']
            react = [['gas', draw(st.integers(0, len(gas) - 1)), 1], ['vac', k, ads[a]['n_sites']]]
            prod = [['ads', a, 1]] + ([['bulk', k, 1]] if draw(st.integers(0, 3)) == 0 else [])
            rxns.append({'kind': kind, 'react': react, 'prod': prod, 'ts': False, 'stick': draw(st.one_of(st.floats(0.01, 1.0), st.floats(0.01, 1.0), st.sampled_from([0.0, 1.0]))),
                         'beta': 0.0})
        elif kind == 'surf':
            a = draw(st.integers(0, len(ads) - 1))
            b = draw(st.integers(0, len(ads) - 1))
            k = ads[a]['site']
            react = [['ads', a, draw(co)]] + ([['vac', k, draw(co)]] if draw(st.booleans()) else []) + \
                ([['bulk', k, 1]] if draw(st.integers(0, 4)) == 0 else [])
            prod = [['ads', b, draw(co)]] + ([['gas', draw(st.integers(0, len(gas) - 1)), 1]] if draw(st.booleans()) else [])
            rxns.append({'kind': kind, 'react': react, 'prod': prod, 'ts': draw(st.booleans()), 'stick': None,
                         'beta': draw(st.sampled_from([1.0, 1.0, 0.0, 0.5]))})
        elif kind == 'gas':
            react = [['gas', draw(st.integers(0, len(gas) - 1)), draw(co)] for _ in range(draw(st.integers(1, 2)))]
            prod = [['gas', draw(st.integers(0, len(gas) - 1)), draw(co)] for _ in range(draw(st.integers(1, 2)))]
            rxns.append({'kind': kind, 'react': react, 'prod': prod, 'ts': draw(st.booleans()), 'stick': None,
                         'beta': draw(st.sampled_from([1.0, 0.0]))})
        else:  # gas reactants only, but a bulk product: belongs with the surface mechanism
            react = [['gas', draw(st.integers(0, len(gas) - 1)), 1]]
            prod = [['bulk', draw(st.integers(0, nsite - 1)), 1], ['gas', draw(st.integers(0, len(gas) - 1)), draw(co)]]
            rxns.append({'kind': kind, 'react': react, 'prod': prod, 'ts': draw(st.booleans()), 'stick': None, 'beta': 1.0})
    nT = draw(st.integers(1, 8))
    names = [g['name'] for g in gas] + [a['name'] for a in ads]
    molefrac = []
    for _ in range(nT):
        d = {}
        for nm in names:
            if draw(st.integers(0, 2)) > 0:
                d[nm] = draw(st.floats(0, 1).map(lambda v: round(v, 4)))
        if not d and not molefrac:
            d[names[0]] = 1.0          # at least one species appears in the composition table
        molefrac.append(d)
    return {'sites': sites, 'gas': gas, 'ads': ads, 'vac': vac, 'bulk': bulk, 'rxns': rxns, 'T': draw(st.floats(300, 1200)),
            'act': draw(st.sampled_from(ACT_METHODS)), 'ads_act': draw(st.sampled_from(['get_H_act', 'get_G_act'])),
            'ea_act': draw(st.sampled_from(['get_HoRT_act', 'get_GoRT_act', 'get_EoRT_act'])),
            'unit': draw(st.sampled_from(UNITS)), 'sden_op': draw(st.sampled_from(['sum', 'min', 'max', 'mean'])),
            'mw': draw(st.booleans()), 'float_format': draw(st.sampled_from([' .3E', ' .5E', ' .2E'])),
            'delims': draw(st.sampled_from([['+', '='], ['+', '<=>'], [' + ', ' = '], [' + ', ' <=> ']])),
            'conditions': [{'T': draw(st.floats(300, 1200)), 'P': draw(gen.logf(0.01, 100))} for _ in range(nT)],
            'flow': [[draw(st.floats(300, 1200)), draw(gen.logf(0.01, 100)), draw(gen.logf(0.01, 100)), draw(gen.logf(1, 3000))]
                     for _ in range(nT)], 'molefrac': molefrac}


def nasa(name, phase, th, elements, **kw):
    from pmutt.empirical.nasa import Nasa
    a = [th['cp'], 0.0, 0.0, 0.0, 0.0, th['a6'], th['a7']]
    return Nasa(name=name, T_low=200.0, T_mid=1000.0, T_high=3000.0, a_low=a, a_high=a, phase=phase, elements=dict(elements), **kw)


def build(case):
    from pmutt.chemkin import CatSite
    from pmutt.reaction import ChemkinReaction, Reactions
    sites = [CatSite(name=s['name'], site_density=s['sden'], density=s['density'], bulk_specie=s['bulk']) for s in case['sites']]
    sp = {'gas': [nasa(g['name'], 'G', g['th'], g['elements']) for g in case['gas']],
          'ads': [nasa(a['name'], 'S', a['th'], a['elements'], cat_site=sites[a['site']], n_sites=a['n_sites'])
                  for a in case['ads']],
          'vac': [nasa(v['name'], 'S', v['th'], {}, cat_site=sites[v['site']], n_sites=1) for v in case['vac']]}
    bulk = {}
    for b in case['bulk']:
        if b['name'] not in bulk:
            bulk[b['name']] = nasa(b['name'], 'S', b['th'], {}, cat_site=sites[b['site']])
    sp['bulk'] = [bulk[b['name']] for b in case['bulk']]
    rxns = []
    for m, r in enumerate(case['rxns']):
        def side(items):
            return [sp[k][i] for k, i, _ in items], [float(c_) for _, _, c_ in items]
        re_, rs = side(r['react'])
        pr, ps = side(r['prod'])
        ts = None
        if r['ts']:
            if r['kind'] == 'gas':
                ts = [nasa('TS%d' % m, 'G', {'cp': 5.0, 'a6': 2e4 + 500 * m, 'a7': 3.0}, {})]
            else:
                ts = [nasa('TS%d(S)' % m, 'S', {'cp': 5.0, 'a6': 2e4 + 500 * m, 'a7': 3.0}, {}, cat_site=sites[0], n_sites=1)]
        rxns.append(ChemkinReaction(reactants=re_, reactants_stoich=rs, products=pr, products_stoich=ps, transition_state=ts,
                                    transition_state_stoich=[1.0] if ts else None, beta=r['beta'],
                                    is_adsorption=r['kind'] == 'ads', sticking_coeff=r['stick'] if r['stick'] is not None else 0.5))
    all_species = sp['gas'] + sp['ads'] + sp['vac'] + list(bulk.values())
    return sites, sp, rxns, Reactions(reactions=rxns), all_species


# ---------------------------------------------------------------------------
def data_lines(text):
    return [ln for ln in text.split('\n') if ln.strip() and not ln.lstrip().startswith('!')]


def sections(lines, keywords):
    """split keyword ... END blocks -> dict keyword -> list of (header line, body lines)"""
    out = {}
    cur = None
    for ln in lines:
        w = ln.split()[0] if ln.split() else ''
        head = re.split(r'[ /]', ln.strip())[0]
        if cur is None and head in keywords:
            cur = (head, ln, [])
            continue
        if cur is not None:
            if ln.strip() == 'END':
                out.setdefault(cur[0], []).append((cur[1], cur[2]))
                cur = None
            else:
                cur[2].append(ln)
    return out, cur


def parse_rxn_line(ln):
    toks = ln.split()
    if len(toks) < 4:
        return None
    try:
        nums = [float(t) for t in toks[-3:]]
    except ValueError:
        return None
    return ''.join(toks[:-3]), toks[-3:], nums


def all_gas(r, case):
    return all(k == 'gas' for k, _, _ in r['react'] + r['prod'])


def rxn_string(rx, case):
    return rx.to_string(species_delimiter=case['delims'][0], reaction_delimiter=case['delims'][1], stoich_format='.0f',
                        include_TS=False).replace(' ', '')


def _clamped(rx, name, unit, T):
    """H / G activation value from the plain (unclamped) state differences: max(0, TS barrier, reaction change)"""
    from pmutt import constants as c_
    from pmutt.reaction import Reaction
    plain = Reaction(reactants=rx.reactants, reactants_stoich=rx.reactants_stoich, products=rx.products,
                     products_stoich=rx.products_stoich, transition_state=rx.transition_state,
                     transition_state_stoich=rx.transition_state_stoich)
    q = 'H' if '_H' in name else 'G'
    f = getattr(plain, 'get_delta_%soRT' % q)
    vals = [0.0, float(f(act=False, T=T))]
    if rx.transition_state is not None:
        vals.append(float(f(act=True, T=T)))
    v = max(vals)
    return v if 'oRT' in name else v * c_.R(unit + '/K') * T


def expected_numbers(rx, r, case, surface):
    """A, beta, Ea as the model gives them (formatted like the writer's float format); enthalpy / Gibbs activation values
    are recomputed from the unclamped state differences rather than taken from the reaction's own clamped getter"""
    ff = '{:%s}' % case['float_format']
    T = case['T']
    if r['kind'] == 'ads':
        A = rx.sticking_coeff
        Ea = _clamped(rx, case['ads_act'], case['unit'], T)
    else:
        inc = case['act'] not in ('get_GoRT_act', 'get_G_act')
        A = rx.get_A(include_entropy=inc, sden_operation=case['sden_op'] if surface else None, T=T)
        if case['act'] in ('get_H_act', 'get_G_act', 'get_HoRT_act', 'get_GoRT_act'):
            Ea = _clamped(rx, case['act'], case['unit'], T)
        else:
            m = getattr(rx, case['act'])
            Ea = m(units=case['unit'], T=T) if 'oRT' not in case['act'] else m(T=T)
    return [ff.format(A).strip(), ff.format(r['beta']).strip(), ff.format(Ea).strip()]


def check_mech(case, ctx):
    from pmutt.io import chemkin as ck
    sites, sp, rxns, reactions, species = build(case)
    sd, rd = case['delims']
    kinds = {r['kind'] for r in case['rxns']}
    ctx.nontrivial(('ads' in kinds and 'gas' in kinds and any(r['ts'] for r in case['rxns']) and len(sites) >= 2) or
                   len(case['conditions']) >= 2)
    for k in sorted(kinds):
        ctx.label('rxn:' + k)
    ctx.label('act:' + case['act'])
    e_method = case['act'] in ('get_E_act', 'get_EoRT_act') or case['ea_act'] == 'get_EoRT_act'
    tsless = any((not r['ts']) and r['kind'] != 'ads' for r in case['rxns'])
    kw = dict(T=case['T'], species_delimiter=sd, reaction_delimiter=rd, act_method_name=case['act'], act_unit=case['unit'],
              float_format=case['float_format'])
    if case['act'] in ('get_E_act', 'get_EoRT_act') and tsless:
        # Arrhenius-energy methods are defined through the transition state only: every TS-less, non-adsorption
        # reaction makes the writers crash (recorded finding); the rest of the check cannot run for this case
        try:
            ck.write_gas(nasa_species=species, reactions=reactions, **kw)
            ck.write_surf(reactions=reactions, ads_act_method=case['ads_act'], sden_operation=case['sden_op'], **kw)
        except TypeError as e:
            if exc_site(e) is None:
                raise
            ctx.fail('C06.mech/E-method-crashes-for-reaction-without-TS', '%s with %s' % (type(e).__name__, case['act']))
            return
        ctx.label('E-method-without-TS-did-not-crash')
    # ------------------------------------------------------------------ gas.inp
    gas_txt = ck.write_gas(nasa_species=species, reactions=reactions, **kw)
    secs, dangling = sections(data_lines(gas_txt), {'ELEMENTS', 'SPECIES', 'REACTIONS'})
    if dangling is not None or any(len(secs.get(k_, [])) != 1 for k_ in ('ELEMENTS', 'SPECIES', 'REACTIONS')):
        ctx.fail('C06.mech/gas:sections', 'sections found %r' % {k_: len(v) for k_, v in secs.items()})
        return
    want_el = sorted({e for s_ in species for e in s_.elements})
    got_el = [ln.strip() for ln in secs['ELEMENTS'][0][1]]
    if sorted(got_el) != want_el:
        ctx.fail('C06.mech/gas:elements', 'file %r model %r' % (got_el, want_el))
    want_sp = [g.name for g in sp['gas']]
    got_sp = [ln.strip() for ln in secs['SPECIES'][0][1]]
    if got_sp != want_sp:
        ctx.fail('C06.mech/gas:species', 'file %r model %r' % (got_sp, want_sp))
    gas_lines = [ln for ln in secs['REACTIONS'][0][1]]
    # ------------------------------------------------------------------ surf.inp
    surf_txt = ck.write_surf(reactions=reactions, ads_act_method=case['ads_act'], sden_operation=case['sden_op'],
                             use_mw_correction=case['mw'], **kw)
    # a mechanism that grew after it was first written is written like one built complete
    if len(rxns) >= 2:
        from pmutt.reaction import Reactions as _Reactions
        grown = _Reactions(reactions=rxns[:len(rxns) // 2])
        ck.write_surf(reactions=grown, ads_act_method=case['ads_act'], sden_operation=case['sden_op'],
                      use_mw_correction=case['mw'], **kw)
        grown.reactions.extend(rxns[len(rxns) // 2:])
        again = ck.write_surf(reactions=grown, ads_act_method=case['ads_act'], sden_operation=case['sden_op'],
                              use_mw_correction=case['mw'], **kw)
        if data_lines(again) != data_lines(surf_txt):
            diff = [(a_, b_) for a_, b_ in zip(data_lines(again), data_lines(surf_txt)) if a_ != b_][:2]
            ctx.fail('C06.mech/surf:grown-mechanism-written-differently', '%d vs %d lines; first differences %r' % (
                len(data_lines(again)), len(data_lines(surf_txt)), diff))
        ctx.label('grown-mechanism')
    slines = data_lines(surf_txt)
    i_end = slines.index('END') if 'END' in slines else None
    if i_end is None:
        ctx.fail('C06.mech/surf:sections', 'no END after the site blocks')
        return
    site_part, rest = slines[:i_end], slines[i_end + 1:]
    if not rest or not rest[0].startswith('REACTIONS') or rest[-1].strip() != 'END':
        ctx.fail('C06.mech/surf:sections', 'REACTIONS ... END block malformed: %r' % rest[:1])
        return
    head = rest[0].split()
    if ('MWON' in head) != case['mw'] or ('MWOFF' in head) == case['mw']:
        ctx.fail('C06.mech/surf:mw-flag', rest[0])
    if 'oRT' not in case['act'] and case['unit'].upper() not in head:
        ctx.fail('C06.mech/surf:unit-flag', rest[0])
    surf_lines = rest[1:-1]
    # site blocks
    used_sites = []
    for a_ in sp['ads'] + sp['vac']:
        in_rxn = any(a_ in rx.reactants + rx.products for rx in rxns)
        if in_rxn and a_.cat_site.name not in used_sites:
            used_sites.append(a_.cat_site.name)
    blocks = {}
    cur = None
    bulk_lines = []
    for ln in site_part:
        if ln.startswith('SITE/'):
            m = re.match(r'SITE/([^/]+)/\s*SDEN/([^/]+)/', ln)
            if not m:
                ctx.fail('C06.mech/surf:site-line', ln)
                return
            cur = m.group(1)
            if cur in blocks:
                ctx.fail('C06.mech/surf:site-twice', cur)
            blocks[cur] = {'sden': m.group(2), 'ads': []}
        elif ln.startswith('BULK'):
            bulk_lines.append(ln)
        else:
            m = re.match(r'\s*([^/\s]+)/(\d+)/\s*$', ln)
            if not m or cur is None:
                ctx.fail('C06.mech/surf:adsorbate-line', ln)
                return
            blocks[cur]['ads'].append((m.group(1), int(m.group(2))))
    if sorted(blocks) != sorted(used_sites):
        ctx.fail('C06.mech/surf:sites', 'file %r model %r' % (sorted(blocks), sorted(used_sites)))
    for s_ in sites:
        if s_.name in blocks:
            if blocks[s_.name]['sden'] != '{:.5E}'.format(s_.site_density):
                ctx.fail('C06.mech/surf:site-density', '%s: file %s model %r' % (s_.name, blocks[s_.name]['sden'], s_.site_density))
            want_ads = sorted((a_.name, int(a_.n_sites)) for a_ in sp['ads'] + sp['vac']
                              if a_.cat_site is s_ and any(a_ in rx.reactants + rx.products for rx in rxns))
            if sorted(blocks[s_.name]['ads']) != want_ads:
                ctx.fail('C06.mech/surf:adsorbates', '%s: file %r model %r' % (s_.name, sorted(blocks[s_.name]['ads']), want_ads))
    want_bulk = sorted({(s_.bulk_specie, '{:.1f}'.format(s_.density)) for s_ in sites if s_.name in used_sites})
    got_bulk = []
    for ln in bulk_lines:
        m = re.match(r'BULK\s+([^/]+)/([^/]+)/', ln)
        got_bulk.append((m.group(1), m.group(2)) if m else (ln, ''))
    if len(got_bulk) != len(set(b for b, _ in got_bulk)):
        ctx.fail('C06.mech/surf:bulk-listed-twice', '%r' % got_bulk)
    elif sorted(set(b for b, _ in got_bulk)) != sorted(set(b for b, _ in want_bulk)):
        ctx.fail('C06.mech/surf:bulk', 'file %r model %r' % (got_bulk, want_bulk))
    # ------------------------------------------------------------------ partition + numbers
    def collect(lines):
        out = []
        k_ = 0
        while k_ < len(lines):
            p = parse_rxn_line(lines[k_])
            if p is None:
                out.append(('?', lines[k_], None, False))
                k_ += 1
                continue
            stick = k_ + 1 < len(lines) and lines[k_ + 1].strip() == 'STICK'
            out.append((p[0], p[1], p[2], stick))
            k_ += 2 if stick else 1
        return out
    g_entries, s_entries = collect(gas_lines), collect(surf_lines)
    for e in g_entries + s_entries:
        if e[0] == '?':
            ctx.fail('C06.mech/reaction-line-unparsable', repr(e[1]))
            return
    for rx, r in zip(rxns, case['rxns']):
        s_ = rxn_string(rx, case)
        in_gas = [e for e in g_entries if e[0] == s_]
        in_surf = [e for e in s_entries if e[0] == s_]
        want_gas = all_gas(r, case)
        n_same = sum(1 for rx2 in rxns if rxn_string(rx2, case) == s_)
        if want_gas and (len(in_gas) != n_same or in_surf):
            ctx.fail('C06.mech/partition:gas-reaction', '%s: %d in gas.inp, %d in surf.inp' % (s_, len(in_gas), len(in_surf)))
            continue
        if not want_gas and (len(in_surf) != n_same or in_gas):
            ctx.fail('C06.mech/partition:%s-reaction' % r['kind'], '%s: %d in gas.inp, %d in surf.inp' % (
                s_, len(in_gas), len(in_surf)))
            continue
        entries = in_gas if want_gas else in_surf
        if n_same > 1:
            continue       # identical strings: numbers are matched for unique reactions only
        exp = expected_numbers(rx, r, case, surface=not want_gas)
        got = [t.strip() for t in entries[0][1]]
        for nm, g_, e_ in zip(('A', 'beta', 'Ea'), got, exp):
            if g_ != e_:
                ctx.fail('C06.mech/number:%s:%s' % (nm, 'adsorption' if r['kind'] == 'ads' else ('gas' if want_gas else 'surface')),
                         '%s: file %s model %s' % (s_, g_, e_))
        # independent value of the pre-exponential factor where it does not involve an activation entropy:
        # kB/h / sigma_eff^(n-1), n = number of surface (non-bulk) reactants, as the file header documents
        # (every species here is a NASA polynomial: no partition function, q = 1, so the transition state adds nothing
        #  to A on the default route either - whatever the temperature exponent beta is)
        if r['kind'] == 'surf':
            from pmutt import constants as c_
            dens = []
            for k2, i2, c2 in r['react']:
                if k2 in ('ads', 'vac'):
                    site_i = case[k2][i2]['site']
                    dens += [case['sites'][site_i]['sden']] * int(c2)
            if dens:
                A_ref = c_.kb('J/K') / c_.h('J s') / getattr(np, case['sden_op'])(dens) ** (len(dens) - 1)
                if abs(float(got[0]) / A_ref - 1) > 2e-2 * 10 ** (3 - int(case['float_format'][2])) / 10 + 1e-12:
                    ctx.fail('C06.mech/number:A:surface-vs-documented-formula', '%s: file %s, kB/h/sigma^(n-1) = %.6E (n=%d)' % (
                        s_, got[0], A_ref, len(dens)))
        if entries[0][3] != (r['kind'] == 'ads'):
            ctx.fail('C06.mech/stick-keyword', '%s: STICK %s' % (s_, entries[0][3]))
    n_expected = len(rxns)
    if len(g_entries) + len(s_entries) != n_expected:
        ctx.fail('C06.mech/reaction-count', '%d reactions in the model, %d + %d lines in the files' % (
            n_expected, len(g_entries), len(s_entries)))
    # ------------------------------------------------------------------ read back with pMuTT's reader
    d = tempfile.mkdtemp(prefix='vf-c06-')
    try:
        for fname, txt, subset in (('gas.inp', gas_txt, [rx for rx, r in zip(rxns, case['rxns']) if all_gas(r, case)]),
                                   ('surf.inp', surf_txt, [rx for rx, r in zip(rxns, case['rxns']) if not all_gas(r, case)])):
            if not subset:
                continue
            fn = os.path.join(d, fname)
            with open(fn, 'w') as f:
                f.write(txt)
            try:
                out = ck.read_reactions(fn)
            except Exception as e:
                if exc_site(e) is None:
                    raise
                ctx.fail('C06.mech/readback-raises:%s' % type(e).__name__, '%s: %s' % (fname, e))
                continue
            Reactions_, Reactants, React_stoic, Products, Prod_stoic = out
            if len(Reactants) != len(subset):
                ctx.fail('C06.mech/readback:count', '%s: %d reactions written, %d read' % (fname, len(subset), len(Reactants)))
                continue
            # the equation strings it returns are the written equations (blanks aside), nothing cut off or left on
            if len(Reactions_) != len(subset):
                ctx.fail('C06.mech/readback:equation-count', '%s: %d equations for %d reactions' % (fname, len(Reactions_), len(subset)))
            else:
                for rx, eq_ in zip(subset, Reactions_):
                    if ''.join(str(eq_).split()) != rxn_string(rx, case):
                        ctx.fail('C06.mech/readback:equation-text', '%s: wrote %r, reader returns %r' % (fname, rxn_string(rx, case), eq_))
                        break
            for rx, rn, rs_, pn, ps_ in zip(subset, Reactants, React_stoic, Products, Prod_stoic):
                def merged(species_, stoich_):
                    out_ = {}
                    for s2, c2 in zip(species_, stoich_):
                        out_[s2.name] = out_.get(s2.name, 0) + int(round(c2))
                    return out_

                def merged_names(names_, stoich_):
                    out_ = {}
                    for n2, c2 in zip(names_, stoich_):
                        out_[n2] = out_.get(n2, 0) + int(c2)
                    return out_
                if merged_names(rn, rs_) != merged(rx.reactants, rx.reactants_stoich):
                    ctx.fail('C06.mech/readback:reactants', '%s: read %r' % (rxn_string(rx, case), list(zip(rn, rs_))))
                    break
                if merged_names(pn, ps_) != merged(rx.products, rx.products_stoich):
                    ctx.fail('C06.mech/readback:products', '%s: read %r' % (rxn_string(rx, case), list(zip(pn, ps_))))
                    break
    finally:
        shutil.rmtree(d, ignore_errors=True)
    # ------------------------------------------------------------------ EAs / EAg
    ea_act = case['ea_act']
    if ea_act == 'get_EoRT_act' and tsless:
        ea_act = 'get_HoRT_act'
    for gas_flag in (False, True):
        txt = ck.write_EA(reactions=reactions, conditions=case['conditions'], write_gas_phase=gas_flag,
                          act_method_name=ea_act, ads_act_method='get_HoRT_act', float_format=case['float_format'],
                          species_delimiter=sd, reaction_delimiter=rd)
        lines = data_lines(txt)
        if lines[-1].strip() != 'EOF':
            ctx.fail('C06.mech/EA:no-EOF', lines[-1])
        try:
            declared = int(lines[0].split()[0])
        except ValueError:
            ctx.fail('C06.mech/EA:count-line', lines[0])
            continue
        rows = lines[1:-1]
        want = [(rx, r) for rx, r in zip(rxns, case['rxns']) if rx.gas_phase == gas_flag]
        if declared != len(rows) or declared != len(want):
            ctx.fail('C06.mech/EA:declared-count', 'declared %d, %d rows follow, model has %d' % (declared, len(rows), len(want)))
            continue
        ff = '{:%s}' % case['float_format']
        for (rx, r), row in zip(want, rows):
            toks = row.split()
            nc = len(case['conditions'])
            vals, name = toks[-nc:], ''.join(toks[:-nc])
            if name != rxn_string(rx, case):
                ctx.fail('C06.mech/EA:reaction', 'row %r model %s' % (row, rxn_string(rx, case)))
                break
            m = getattr(rx, 'get_HoRT_act' if rx.is_adsorption else ea_act)
            exp = [ff.format(gen.call(m, **cond)).strip() for cond in case['conditions']]
            if vals != exp:
                ctx.fail('C06.mech/EA:values', '%s: file %r model %r' % (name, vals, exp))
                break
    # ------------------------------------------------------------------ T_flow
    T_, P_, Q_, ab = zip(*case['flow'])
    txt = ck.write_T_flow(T=list(T_), P=list(P_), Q=list(Q_), abyv=list(ab))
    rows = [ln for ln in data_lines(txt) if ln.strip() != 'EOF']
    if len(rows) != len(case['flow']):
        ctx.fail('C06.mech/T_flow:rows', '%d rows for %d runs' % (len(rows), len(case['flow'])))
    else:
        for i, (row, vals) in enumerate(zip(rows, case['flow'])):
            toks = row.replace('!', ' ').split()
            exp = ['{:.3E}'.format(v) for v in vals] + [str(i + 1)]
            if toks != exp:
                ctx.fail('C06.mech/T_flow:values', 'row %r expected %r' % (row, exp))
                break
    # ------------------------------------------------------------------ tube_mole
    txt = ck.write_tube_mole(mole_frac_conditions=case['molefrac'], nasa_species=species)
    lines = data_lines(txt)
    names = {nm for dct in case['molefrac'] for nm in dct}
    want_sp2 = [s_ for s_ in species if s_.name in names]
    body = [ln for ln in lines if ln.startswith("'")]
    cnt = [ln for ln in lines if 'Number of nonzero species' in ln]
    if not cnt or int(cnt[0].split()[0]) != len(body) or len(body) != len(want_sp2):
        ctx.fail('C06.mech/tube_mole:declared-count', 'declared %r, %d species lines, %d species in the conditions' % (
            cnt[:1], len(body), len(want_sp2)))
    else:
        for s_, ln in zip(want_sp2, body):
            m = re.match(r"'([^/']+)/([^/']+)/'\s*(.*)$", ln)
            if not m:
                ctx.fail('C06.mech/tube_mole:line', ln)
                break
            phase = 'GAS' if s_.phase == 'G' else s_.cat_site.name
            exp = ['{: .3f}'.format(dct.get(s_.name, 0.0)).strip() for dct in case['molefrac']]
            if m.group(1) != s_.name or m.group(2) != phase or m.group(3).split() != exp:
                ctx.fail('C06.mech/tube_mole:values', 'line %r expected %s/%s %r' % (ln, s_.name, phase, exp))
                break


CLAUSES = [
    Clause('C06.mech', mechanism(), check_mech, 250, 1200,
           'mechanisms with 1-3 catalyst sites (shared or distinct bulk species), 1-6 gas species, 1-8 adsorbates (occupancy 1-3), '
           'vacant-site and bulk species, 1-10 reactions (adsorption with sticking coefficient, surface steps with/without TS and '
           'optional vacancy/bulk reactants, gas reactions), every activation-method name, four energy units, '
           'site-density operations, MW flag, float formats, delimiter pairs, 1-8 run conditions. Oracles: reference parsers of '
           'gas.inp / surf.inp / EAs.inp / EAg.inp / T_flow.inp / tube_mole.inp keyed on the format keywords; every element / '
           'species / site / adsorbate / bulk / reaction exactly once in the right file; declared counts = rows; every printed '
           'number = the model value formatted with the same format; read_reactions gives the model\'s species and integer '
           'stoichiometry. Non-trivial = adsorption + TS reaction + gas reaction on >= 2 sites, or >= 2 run conditions',
           quick_shards=6),
]
FUZZ = [('C06.mech', 2500, 4)]
ASSUMPTIONS = ['printed numbers are compared as strings produced with the writer\'s own float format from the model\'s getters (C09 judges the getters)',
               'files are parsed by their keywords and slashes, never by comment lines or blank-line layout']

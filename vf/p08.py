"""C08 - Hess's law, reversal symmetry, detailed balance, keyword routing, purity."""
import copy
import math

import numpy as np
from hypothesis import strategies as st

from vf import gen
from vf.core import Clause

# names in prefix/suffix relation are deliberately in the pool (keyword routing is by name)
NAME_POOL = ['A', 'BA', 'CBA', 'AB', 'B', 'H2', 'O2', 'CO2', 'CO', 'H2O', 'OH', 'H', 'O', 'TS1', '1TS1', 'O2_TS',
             'H2_kwargs_x', 'X', 'Ar', 'K', 'Kr', 'H2_gas', 'CH3_s', 'water', 'gas', 'args']     # names made of the letters of '_kwargs' too
COEF = st.one_of(st.sampled_from([0.25, 0.5, 1.0, 1.5, 2.0, 3.0, 4.0]), st.floats(0.25, 4.0))
QUANTS = ['CvoR', 'CpoR', 'UoRT', 'HoRT', 'SoR', 'FoRT', 'GoRT']
# dimensional getter -> (dimensionless quantity, unit, multiplied by T)
DIMS = {'Cv': ('CvoR', 'J/mol/K', False), 'Cp': ('CpoR', 'cal/mol/K', False), 'U': ('UoRT', 'kJ/mol', True),
        'H': ('HoRT', 'kcal/mol', True), 'S': ('SoR', 'J/mol/K', False), 'F': ('FoRT', 'kJ/mol', True),
        'G': ('GoRT', 'eV', True)}


@st.composite
def reaction_case(draw, classes=('Reaction', 'Reaction', 'ChemkinReaction', 'SurfaceReaction')):
    cls = draw(st.sampled_from(list(classes)))
    n = draw(st.integers(2, 6))
    names = draw(st.lists(st.sampled_from(NAME_POOL), min_size=n, max_size=n, unique=True))
    species = []
    for nm in names:
        if cls == 'ChemkinReaction':
            d = draw(gen.species_desc(name=nm, classes=('Nasa', 'Nasa', 'Shomate', 'Nasa9')))
            d['phase'] = draw(st.sampled_from(['G', 'S', 'G']))
        else:
            d = draw(gen.species_desc(name=nm))
            if d['cls'] in ('Nasa', 'Nasa9', 'Shomate'):
                d['phase'] = draw(st.sampled_from([None, 'G', 'S', 'g', 'gas']))
        species.append(d)
    idx = st.integers(0, n - 1)
    side = st.lists(st.tuples(idx, COEF).map(list), min_size=1, max_size=4)
    ts = draw(st.one_of(st.none(), st.lists(st.tuples(idx, COEF).map(list), min_size=1, max_size=2)))
    blocks = {}
    for _ in range(draw(st.integers(0, 2))):
        nm = names[draw(idx)]
        blocks[nm] = {'P': draw(gen.logf(1e-3, 1e2))}
    return {'cls': cls, 'species': species, 'react': draw(side), 'prod': draw(side), 'ts': ts,
            'T': draw(gen.logf(200, 2000)), 'P': draw(gen.logf(1e-3, 1e2)), 'blocks': blocks}


def build_reaction(case, species=None):
    from pmutt.reaction import Reaction, ChemkinReaction
    from pmutt.omkm.reaction import SurfaceReaction
    sp = species if species is not None else [gen.build_species(d) for d in case['species']]

    def side(items):
        return [sp[i] for i, _ in items], [c_ for _, c_ in items]
    r, rs = side(case['react'])
    p, ps = side(case['prod'])
    t, ts = side(case['ts']) if case['ts'] else (None, None)
    cls = {'Reaction': Reaction, 'ChemkinReaction': ChemkinReaction, 'SurfaceReaction': SurfaceReaction}[case['cls']]
    rxn = cls(reactants=r, reactants_stoich=rs, products=p, products_stoich=ps, transition_state=t,
              transition_state_stoich=ts)
    return rxn, sp


def species_value(sp, desc, q, T, P):
    """species' own getter under its own conditions (independent argument filtering)"""
    return gen.call(getattr(sp, 'get_' + q), T=T, P=P)


def state_sums(case, sp, q, T, Pof):
    """(sum over reactants, products, ts) of nu * X, and the scale sum |nu X|"""
    out = {}
    scale = 0.0
    for key in ('react', 'prod', 'ts'):
        if case[key] is None:
            out[key] = None
            continue
        tot = 0.0
        for i, cf in case[key]:
            v = species_value(sp[i], case['species'][i], q, T, Pof(i))
            v = float(np.ravel(v)[0]) if np.ndim(v) else float(v)
            tot += cf * v
            scale += abs(cf * v)
        out[key] = tot
    return out, scale


def check_hess(case, ctx):
    rxn, sp = build_reaction(case)
    T, P = case['T'], case['P']
    names = [d['name'] for d in case['species']]
    kwargs = {'T': T, 'P': P}
    for nm, blk in case['blocks'].items():
        kwargs['%s_kwargs' % nm] = dict(blk)
    before = copy.deepcopy(kwargs)

    def Pof(i):
        return case['blocks'].get(names[i], {}).get('P', P)
    used = {i for i, _ in case['react'] + case['prod'] + (case['ts'] or [])}
    frac = any(c_ != int(c_) for _, c_ in case['react'] + case['prod'])
    routed = any(names.index(nm) in used for nm in case['blocks'])
    ctx.nontrivial((len(case['react']) >= 2 and len(case['prod']) >= 2 and frac) or case['ts'] is not None or routed)
    ctx.label('cls:' + case['cls'])
    if routed:
        ctx.label('per-species-block')
    if case['ts'] is not None:
        ctx.label('ts')
    tag = 'C08.hess'
    sums = {}
    for q in QUANTS:
        S, scale = state_sums(case, sp, q, T, Pof)
        sums[q] = (S, scale)
        tol = 1e-10 * scale + 1e-12
        # state quantities
        for key, state in (('react', 'reactants'), ('prod', 'products'), ('ts', 'transition state')):
            if S[key] is None:
                continue
            got = getattr(rxn, 'get_%s_state' % q)(state=state, **kwargs)
            ctx.close('%s/state:%s' % (tag, q), got, S[key], rtol=0, atol=tol, detail=state)
        for rev in (False, True):
            for act in (False, True):
                if act and S['ts'] is None:
                    continue
                ini = S['prod'] if rev else S['react']
                fin = S['ts'] if act else (S['react'] if rev else S['prod'])
                got = getattr(rxn, 'get_delta_%s' % q)(rev=rev, act=act, **kwargs)
                ctx.close('%s/delta:%s' % (tag, q), got, fin - ini, rtol=0, atol=tol,
                          detail='rev=%s act=%s' % (rev, act))
                if act:
                    ga = getattr(rxn, 'get_%s_act' % q, None)
                    # clamped overrides (H, G of Chemkin/SurfaceReaction) are C09's business
                    if ga is not None and not (case['cls'] != 'Reaction' and q in ('HoRT', 'GoRT')):
                        ctx.close('%s/act:%s' % (tag, q), ga(rev=rev, **kwargs), fin - ini, rtol=0, atol=tol,
                                  detail='rev=%s' % rev)
        # reversal symmetry and forward - reverse activation = reaction change
        f = getattr(rxn, 'get_delta_%s' % q)
        ctx.close('%s/reversal:%s' % (tag, q), f(rev=True, act=False, **kwargs), -f(rev=False, act=False, **kwargs),
                  rtol=0, atol=tol)
        if S['ts'] is not None:
            ctx.close('%s/act-diff:%s' % (tag, q), f(rev=False, act=True, **kwargs) - f(rev=True, act=True, **kwargs),
                      f(rev=False, act=False, **kwargs), rtol=0, atol=2 * tol)
    # Arrhenius activation energy: the transition-state enthalpy change plus (1 - del_m) for every documented del_m, so
    # forward minus reverse is the reaction enthalpy
    if sums['HoRT'][0]['ts'] is not None:
        S_, scale_ = sums['HoRT']
        for dm in (0, 1, -1):
            ef = rxn.get_EoRT_act(rev=False, del_m=dm, **kwargs)
            er = rxn.get_EoRT_act(rev=True, del_m=dm, **kwargs)
            ctx.close('C08.hess/EoRT_act', [ef, er], [S_['ts'] - S_['react'] + (1 - dm), S_['ts'] - S_['prod'] + (1 - dm)],
                      rtol=0, atol=1e-10 * scale_ + 1e-12, detail='del_m=%r' % dm)
            ctx.close('C08.hess/act-diff:EoRT_act', ef - er, S_['prod'] - S_['react'], rtol=0, atol=2e-10 * scale_ + 1e-12,
                      detail='del_m=%r' % dm)
    # dimensional state and delta getters obey the same sums (full unit coverage is C04)
    from pmutt import constants as c_
    for Q, (q, unit, withT) in DIMS.items():
        S, scale = sums[q]
        fac = c_.R(unit + '/K' if withT else unit) * (T if withT else 1.)
        tol = (1e-10 * scale + 1e-12) * abs(fac)
        kw = {k: v for k, v in kwargs.items() if k != 'T'}
        for key, state in (('react', 'reactants'), ('prod', 'products'), ('ts', 'transition state')):
            if S[key] is None:
                continue
            got = getattr(rxn, 'get_%s_state' % Q)(state=state, units=unit, T=T, **kw)
            ctx.close('%s/dim-state:%s' % (tag, Q), got, S[key] * fac, rtol=0, atol=tol, detail='%s %s' % (state, unit))
        for rev in (False, True):
            for act in (False, True):
                if act and S['ts'] is None:
                    continue
                ini = S['prod'] if rev else S['react']
                fin = S['ts'] if act else (S['react'] if rev else S['prod'])
                got = getattr(rxn, 'get_delta_%s' % Q)(units=unit, T=T, rev=rev, act=act, **kw)
                ctx.close('%s/dim-delta:%s' % (tag, Q), got, (fin - ini) * fac, rtol=0, atol=tol,
                          detail='rev=%s act=%s %s' % (rev, act, unit))
    # equilibrium constant
    S, scale = sums['GoRT']
    for rev in (False, True):
        for act in (False, True):
            if act and S['ts'] is None:
                continue
            ini = S['prod'] if rev else S['react']
            fin = S['ts'] if act else (S['react'] if rev else S['prod'])
            dG = fin - ini
            if abs(dG) > 600:
                ctx.label('Keq-overflow-skipped')
                continue
            K = rxn.get_Keq(rev=rev, act=act, **kwargs)
            if not (K > 0 and math.isfinite(K)):
                ctx.fail('C08.hess/Keq-not-positive', 'K=%r dG=%r' % (K, dG))
                continue
            ctx.close('C08.hess/Keq=exp(-dG)', math.log(K), -dG, rtol=0, atol=1e-10 * scale + 1e-10,
                      detail='rev=%s act=%s' % (rev, act))
    if abs(S['prod'] - S['react']) < 600:
        kf = rxn.get_Keq(rev=False, **kwargs)
        kr = rxn.get_Keq(rev=True, **kwargs)
        ctx.close('C08.hess/Kf*Kr=1', math.log(kf) + math.log(kr), 0.0, rtol=0, atol=2e-10 * scale + 1e-10)
    # partition functions multiply (compared in logs; skipped when not finite)
    try:
        lq = {}
        for key in ('react', 'prod', 'ts'):
            if case[key] is None:
                lq[key] = None
                continue
            tot = 0.0
            for i, cf in case[key]:
                v = gen.call(sp[i].get_q, T=T, P=Pof(i), ignore_q_elec=True)
                tot += cf * math.log(v)
            lq[key] = tot
        finite = all(v is None or math.isfinite(v) for v in lq.values())
    except (ValueError, OverflowError, ZeroDivisionError):
        finite = False
    except NotImplementedError:
        # documented refusal (quasi-RRHO has no partition function)
        ctx.label('q-not-implemented')
        finite = False
    if finite:
        for rev in (False, True):
            for act in (False, True):
                if act and lq['ts'] is None:
                    continue
                ini = lq['prod'] if rev else lq['react']
                fin = lq['ts'] if act else (lq['react'] if rev else lq['prod'])
                got = rxn.get_delta_q(rev=rev, act=act, ignore_q_elec=True, **kwargs)
                if act:
                    # the activation wrapper is the same ratio
                    for zpe in (False, True):
                        ga = rxn.get_q_act(rev=rev, ignore_q_elec=True, include_ZPE=zpe, **kwargs)
                        gd = rxn.get_delta_q(rev=rev, act=True, ignore_q_elec=True, include_ZPE=zpe, **kwargs)
                        if gd > 0 and math.isfinite(gd) and ga > 0 and math.isfinite(ga):
                            ctx.close('C08.hess/act:q', math.log(ga), math.log(gd), rtol=1e-12, atol=1e-12,
                                      detail='rev=%s include_ZPE=%s' % (rev, zpe))
                if got > 0 and math.isfinite(got):
                    ctx.close('C08.hess/delta:q', math.log(got), fin - ini, rtol=1e-10,
                              atol=1e-9 * (abs(ini) + abs(fin)) + 1e-10, detail='rev=%s act=%s' % (rev, act))
                else:
                    ctx.label('q-overflow-skipped')
    else:
        ctx.label('q-not-finite-skipped')
    # electronic energy: only where every species defines it
    if all(d['cls'] == 'StatMech' for k, d in enumerate(case['species']) if k in used):
        ctx.label('EoRT-checked')
        # a species without a vibrational model has no zero-point energy to include (documented AttributeError)
        has_zpe = all(d['vib'] is not None for k, d in enumerate(case['species']) if k in used)
        for inc in ((False, True) if has_zpe else (False,)):
            def ev(i):
                return float(sp[i].get_EoRT(T=T, include_ZPE=inc))
            tot = {}
            sc = 0.0
            for key in ('react', 'prod', 'ts'):
                tot[key] = None if case[key] is None else sum(cf * ev(i) for i, cf in case[key])
                if case[key]:
                    sc += sum(abs(cf * ev(i)) for i, cf in case[key])
            got = rxn.get_delta_EoRT(rev=False, act=False, include_ZPE=inc, **kwargs)
            ctx.close('C08.hess/delta:EoRT', got, tot['prod'] - tot['react'], rtol=0, atol=1e-10 * sc + 1e-12,
                      detail='include_ZPE=%s' % inc)
            if tot['ts'] is not None:
                got = rxn.get_delta_EoRT(rev=True, act=True, include_ZPE=inc, **kwargs)
                ctx.close('C08.hess/delta:EoRT', got, tot['ts'] - tot['prod'], rtol=0, atol=1e-10 * sc + 1e-12,
                          detail='rev act include_ZPE=%s' % inc)
            facE = c_.R('kJ/mol/K') * T
            kwE = {k: v for k, v in kwargs.items() if k != 'T'}
            ctx.close('C08.hess/dim-delta:E', rxn.get_delta_E(units='kJ/mol', T=T, include_ZPE=inc, **kwE),
                      (tot['prod'] - tot['react']) * facE, rtol=0, atol=(1e-10 * sc + 1e-12) * facE,
                      detail='include_ZPE=%s' % inc)
            for key, state in (('react', 'reactants'), ('prod', 'products'), ('ts', 'transition state')):
                if tot[key] is not None:
                    ctx.close('C08.hess/dim-state:E', rxn.get_E_state(state=state, units='kJ/mol', T=T, include_ZPE=inc, **kwE),
                              tot[key] * facE, rtol=0, atol=(1e-10 * sc + 1e-12) * facE,
                              detail='%s include_ZPE=%s' % (state, inc))
    # purity: the caller's dictionaries are left alone
    if kwargs != before:
        ctx.fail('C08.hess/kwargs-mutated', 'before %r after %r' % (before, kwargs))


CLAUSES = [
    Clause('C08.hess', reaction_case(), check_hess, 250, 2500,
           '2-6 species (StatMech over the C01 mode space without imaginary modes, Nasa, Nasa9, Shomate, constant-mode) with '
           'names drawn from a pool containing prefix/suffix-related names; 1-4 reactants and products, coefficients 0.25-4 '
           '(fractional), optional 1-2 TS species; Reaction / ChemkinReaction / SurfaceReaction; T, P and 0-2 per-species '
           'keyword blocks. Oracle: sums of the species\' own getters evaluated by the harness under each species\' own '
           'conditions (state, delta for all (rev, act), act getters, reversal, forward-reverse, ln Keq, Kf*Kr, ln q ratios, '
           'EoRT, the dimensional state/delta getters in one unit each, caller kwargs unchanged). Non-trivial = >=2 species per side with a fractional coefficient, or a TS, or a '
           'per-species block addressing a participating species', quick_shards=6),
]
ASSUMPTIONS = ['tolerance 1e-10 x sum of |nu X| (large electronic energies cancel)',
               'partition-function and Keq relations are compared in logarithms and skipped when a factor over/underflows']

"""C02 - NASA-7 / NASA-9 / Shomate species are internally consistent polynomials."""
import copy
import math

import numpy as np
from hypothesis import strategies as st

from vf import ref
from vf.core import Clause

TINY = 1e-290      # results in the subnormal range carry fewer than 53 bits: never judged finer than this

R_UNITS = ['J/mol/K', 'kJ/mol/K', 'L kPa/mol/K', 'cm3 kPa/mol/K', 'm3 Pa/mol/K', 'cm3 MPa/mol/K', 'm3 bar/mol/K',
           'L bar/mol/K', 'L torr/mol/K', 'cal/mol/K', 'kcal/mol/K', 'L atm/mol/K', 'cm3 atm/mol/K', 'eV/K', 'Eh/K',
           'Ha/K']


def logf(lo, hi):
    return st.floats(math.log(lo), math.log(hi)).map(lambda v: float(math.exp(v)))


def signed_mag(lo_exp, hi_exp):
    return st.builds(lambda s, e: s * 10.0 ** e, st.sampled_from([1.0, -1.0]), st.floats(lo_exp, hi_exp))


def coef_vector(n, kind, scales):
    """scales[i] = typical magnitude of coefficient i for the 'physical' kind."""
    if kind == 'physical':
        return st.tuples(*[st.floats(-1, 1).map(lambda u, s=s: u * s) for s in scales]).map(list)
    if kind == 'arbitrary':
        return st.lists(st.one_of(signed_mag(-30, 12), st.just(0.0), signed_mag(-3, 3)), min_size=n, max_size=n)
    if kind == 'unit':
        return st.integers(0, n - 1).map(lambda i: [1.0 if k == i else 0.0 for k in range(n)])
    raise ValueError(kind)


KINDS = st.sampled_from(['physical', 'physical', 'arbitrary', 'unit'])
N7_SCALES = [15.0, 1e-2, 1e-5, 1e-8, 1e-12, 1e5, 50.0]
N9_SCALES = [1e5, 1e3, 15.0, 1e-2, 1e-5, 1e-8, 1e-12, 1e5, 50.0]
SH_SCALES = [100.0, 100.0, 50.0, 20.0, 5.0, 500.0, 300.0, 500.0]


@st.composite
def breaks(draw, nseg):
    """T_0 < T_1 < ... < T_nseg inside 50..6000 K"""
    lo = draw(logf(50, 1500))
    widths = [draw(st.floats(0.08, 1.0)) for _ in range(nseg)]
    top = draw(logf(max(lo * 1.5, 300), 6000))
    tot = sum(widths)
    pts = [lo]
    acc = 0.0
    for w in widths:
        acc += w
        pts.append(lo + (top - lo) * acc / tot)
    return pts


def t_points(draw, pts, n, allow_outside=False):
    """temperatures inside [pts[0], pts[-1]] incl. break points and their float neighbours"""
    out = []
    for _ in range(n):
        k = draw(st.sampled_from(['in', 'in', 'in', 'break', 'break-', 'break+', 'low', 'high']))
        j = draw(st.integers(0, len(pts) - 1))
        if k == 'in':
            seg = draw(st.integers(0, len(pts) - 2))
            u = draw(st.floats(0.0, 1.0))
            out.append(min(max(pts[seg] + u * (pts[seg + 1] - pts[seg]), pts[0]), pts[-1]))
        elif k == 'break':
            out.append(pts[j])
        elif k == 'break-':
            out.append(max(pts[0], math.nextafter(pts[j], -math.inf)))
        elif k == 'break+':
            out.append(min(pts[-1], math.nextafter(pts[j], math.inf)))
        elif k == 'low':
            out.append(pts[0])
        else:
            out.append(pts[-1])
    return out


@st.composite
def nasa7_case(draw):
    pts = draw(breaks(2))
    kind = draw(KINDS)
    return {'T_low': pts[0], 'T_mid': pts[1], 'T_high': pts[2],
            'a_low': draw(coef_vector(7, kind, N7_SCALES)), 'a_high': draw(coef_vector(7, kind, N7_SCALES)),
            'kind': kind, 'T': t_points(draw, pts, draw(st.integers(1, 12))),
            'as': draw(st.sampled_from(['ndarray', 'list'])), 'shuffle': draw(st.booleans())}


@st.composite
def nasa9_case(draw):
    nseg = draw(st.integers(1, 4))
    pts = draw(breaks(nseg))
    kind = draw(KINDS)
    order = draw(st.permutations(list(range(nseg))))
    return {'pts': pts, 'a': [draw(coef_vector(9, kind, N9_SCALES)) for _ in range(nseg)], 'kind': kind,
            'order': list(order), 'T': t_points(draw, pts, draw(st.integers(1, 12))),
            'as': draw(st.sampled_from(['ndarray', 'list'])),
            'outside': draw(st.sampled_from(['below', 'above', 'far-below', 'far-above']))}


@st.composite
def shomate_case(draw):
    pts = draw(breaks(1))
    kind = draw(KINDS)
    return {'T_low': pts[0], 'T_high': pts[1], 'a': draw(coef_vector(8, kind, SH_SCALES)), 'kind': kind,
            'units': draw(st.sampled_from(R_UNITS)), 'T': t_points(draw, pts, draw(st.integers(1, 12))),
            'as': draw(st.sampled_from(['ndarray', 'list']))}


# ---------------------------------------------------------------------------
def _as(T, how):
    return np.array(T) if how == 'ndarray' else list(T)


def _scalar_vs_ref(ctx, tag, obj, T, terms, with_G=True):
    """closed form + G = H - TS at one temperature; terms = (cp, h, s) term lists"""
    cp, cps = ref.tsum(terms[0])
    h, hs = ref.tsum(terms[1])
    s, ss = ref.tsum(terms[2])
    eps = 1e-12
    ctx.close(tag + '/closed-form:CpoR', obj.get_CpoR(T=T), cp, rtol=eps, atol=eps * cps + TINY, detail='T=%r' % T)
    H = obj.get_HoRT(T=T)
    S = obj.get_SoR(T=T)
    ctx.close(tag + '/closed-form:HoRT', H, h, rtol=eps, atol=eps * hs + TINY, detail='T=%r' % T)
    ctx.close(tag + '/closed-form:SoR', S, s, rtol=eps, atol=eps * ss + TINY, detail='T=%r' % T)
    if with_G:
        ctx.close(tag + '/G=H-TS', obj.get_GoRT(T=T), H - S, rtol=eps, atol=eps * (hs + ss) + TINY, detail='T=%r' % T)
    return cps, hs, ss


def _helpers(ctx, tag, fns, a, Ts, termf, form, **kw):
    """module-level evaluators (fns = (Cp, H, S[, G])) on a coefficient vector against the reference terms; `form` is the
    documented form of T: 'scalar' (NASA helpers: "T : float") or 'iterable' (Shomate helpers: "T : iterable")"""
    eps = 1e-12
    if form == 'iterable':
        arr = np.array(Ts, dtype=float)
        whole = [np.ravel(np.asarray(f(a=np.array(a), T=arr, **kw), dtype=float)) for f in fns]
    for i, T in enumerate(Ts):
        terms = termf(T)
        ref3 = [ref.tsum(t_) for t_ in terms]
        vals = [r_[0] for r_ in ref3] + [ref3[1][0] - ref3[2][0]]
        scs = [r_[1] for r_ in ref3] + [ref3[1][1] + ref3[2][1]]
        for k, f in enumerate(fns):
            if form == 'scalar':
                one = float(np.ravel(f(a=np.array(a), T=T, **kw))[0])
                ctx.close('%s/helper:%s' % (tag, f.__name__), one, vals[k], rtol=eps, atol=eps * scs[k] + TINY, detail='T=%r %r' % (T, kw))
            elif whole[k].shape == (len(Ts),):
                ctx.close('%s/helper:%s' % (tag, f.__name__), whole[k][i], vals[k], rtol=eps, atol=eps * scs[k] + TINY,
                          detail='T=%r in %r %r' % (T, Ts, kw))
            elif i == 0:
                ctx.fail('%s/helper-shape:%s' % (tag, f.__name__), 'len(T)=%d shape %r' % (len(Ts), whole[k].shape))


def _int_temperatures(ctx, tag, obj, lo, hi, getters=('get_CpoR', 'get_HoRT', 'get_SoR', 'get_GoRT')):
    """whole-number temperatures given as Python ints / an integer array mean the same as the floats"""
    a, b = int(math.ceil(lo)) + 1, int(math.floor(hi)) - 1
    if b - a < 3:
        return
    Ti = [a + (b - a) // 3, a + 2 * (b - a) // 3, b]
    for g in getters:
        f = getattr(obj, g)
        want = np.array([float(np.ravel(f(T=float(t)))[0]) for t in Ti])
        for how, arg in (('list-of-int', list(Ti)), ('int-array', np.array(Ti, dtype=np.int64))):
            try:
                got = np.ravel(np.asarray(f(T=arg), dtype=float))
            except Exception as e:
                from vf.core import exc_site
                if exc_site(e) is None:
                    raise
                ctx.fail('%s/int-temperatures-raise:%s:%s' % (tag, g, type(e).__name__), '%s T=%r: %s' % (how, Ti, e))
                continue
            ctx.close('%s/int-temperatures:%s' % (tag, g), got, want, rtol=1e-13, atol=1e-13 * (1 + float(np.max(np.abs(want)))),
                      detail='%s T=%r' % (how, Ti))
        one = float(np.ravel(f(T=int(Ti[0])))[0])
        ctx.close('%s/int-temperatures:%s' % (tag, g), one, want[0], rtol=1e-13, atol=1e-13 * (1 + abs(want[0])), detail='int scalar')


def _derivatives(ctx, tag, obj, T, lo, hi, scales):
    """d(T*H/RT)/dT = Cp/R and T dS/dT = Cp/R strictly inside (lo, hi)."""
    room = min(T - lo, hi - T)
    if room < 1e-4 * T:
        ctx.exclude('derivative stencil would straddle a break (covered by the closed-form clause)')
        return
    h = min(2e-3 * T, room / 1.01)
    cps, hs, ss = scales
    cp = obj.get_CpoR(T=T)
    dH, eH = ref.richardson(lambda x: x * obj.get_HoRT(T=x), T, h)
    dS, eS = ref.richardson(lambda x: obj.get_SoR(T=x), T, h)
    # tolerance: truncation (checked through the h vs h/2 agreement) + round-off eps*f/h
    tolH = 1e-6 * cps + 2e-14 * hs * T / h + 0.05 * eH
    tolS = 1e-6 * cps + 2e-14 * ss * T / h + 0.05 * eS * T
    ctx.close(tag + '/dH/dT=Cp', dH, cp, rtol=0, atol=tolH + TINY, detail='T=%r h=%r' % (T, h))
    ctx.close(tag + '/TdS/dT=Cp', T * dS, cp, rtol=0, atol=tolS + TINY, detail='T=%r h=%r' % (T, h))


GETTERS = ['get_CpoR', 'get_HoRT', 'get_SoR', 'get_GoRT']
DIM = [('get_Cp', 'J/mol/K'), ('get_H', 'kJ/mol'), ('get_S', 'cal/mol/K'), ('get_G', 'eV')]


def _array_clause(ctx, tag, obj, T, how, scales, getters=GETTERS, dims=DIM, pristine=None):
    """get_X(array)[i] == get_X(array[i]), each temperature 'on its own': on a fresh copy of the never-evaluated object.  Vectorised and scalar evaluation may differ in the last
    bit of every term, so the comparison is at 1e-13 of the sum of |terms| (scales[i] = (cp, h, s))."""
    from pmutt import constants as c
    from vf.core import exc_site
    arr = _as(T, how)
    Tn = np.asarray(T, dtype=float)
    sc = {'get_CpoR': np.array([x[0] for x in scales]), 'get_HoRT': np.array([x[1] for x in scales]),
          'get_SoR': np.array([x[2] for x in scales]), 'get_GoRT': np.array([x[1] + x[2] for x in scales])}
    conv = {'get_Cp': c.R('J/mol/K'), 'get_H': c.R('kJ/mol/K') * Tn, 'get_S': c.R('cal/mol/K'),
            'get_G': c.R('eV/K') * Tn}
    dimless = {'get_Cp': 'get_CpoR', 'get_H': 'get_HoRT', 'get_S': 'get_SoR', 'get_G': 'get_GoRT'}
    jobs = [(g, {}, sc[g]) for g in getters] + [(g, {'units': u}, sc[dimless[g]] * conv[g]) for g, u in dims]
    for g, kw, scale in jobs:
        try:
            whole = getattr(obj, g)(T=arr, **kw)
        except Exception as e:
            if exc_site(e) is None:
                raise
            ctx.fail('%s/array-raises:%s:%s' % (tag, g, type(e).__name__), 'T=%r (%s) %r: %s' % (T, how, kw, e))
            continue
        single = np.ravel(np.asarray([getattr(copy.deepcopy(pristine) if pristine is not None else obj, g)(T=t, **kw)
                                      for t in T], dtype=float))
        w = np.ravel(np.asarray(whole, dtype=float))
        if w.shape != (len(T),):
            ctx.fail('%s/array-shape:%s' % (tag, g), 'len(T)=%d result shape %r' % (len(T), np.shape(whole)))
            continue
        ctx.close('%s/array=scalars:%s' % (tag, g), w, single, rtol=1e-13, atol=1e-13 * scale + TINY,
                  detail='T=%r (%s) %r' % (T, how, kw))


# ---------------------------------------------------------------------------
def check_nasa7(case, ctx):
    from pmutt.empirical.nasa import Nasa
    obj = Nasa(name='X', T_low=case['T_low'], T_mid=case['T_mid'], T_high=case['T_high'],
               a_low=list(case['a_low']), a_high=list(case['a_high']), elements={'H': 2})
    pristine = copy.deepcopy(obj)
    Tm = case['T_mid']
    both = any(t < Tm for t in case['T']) and any(t >= Tm for t in case['T'])
    near = any(abs(t - Tm) <= 1e-6 * Tm for t in case['T'])
    ctx.nontrivial(both or near)
    ctx.label('kind:' + case['kind'])
    if near:
        ctx.label('T-at-or-next-to-T_mid')
    if any(t == Tm for t in case['T']):
        ctx.label('T==T_mid')
    allsc = []
    for T in case['T']:
        a = case['a_high'] if T >= Tm else case['a_low']       # upper segment at the break
        scales = _scalar_vs_ref(ctx, 'C02.nasa7', obj, T, ref.nasa7_terms(a, T))
        allsc.append(scales)
        lo, hi = (Tm, case['T_high']) if T >= Tm else (case['T_low'], Tm)
        _derivatives(ctx, 'C02.nasa7', obj, T, lo, hi, scales)
    _array_clause(ctx, 'C02.nasa7', obj, case['T'], case['as'], allsc, pristine=pristine)
    from pmutt.empirical import nasa as _n
    fns = (_n.get_nasa_CpoR, _n.get_nasa_HoRT, _n.get_nasa_SoR)
    for a_ in (case['a_low'], case['a_high']):
        _helpers(ctx, 'C02.nasa7', fns, a_, list(case['T']), lambda T_, a_=a_: ref.nasa7_terms(a_, T_), 'scalar')
    _int_temperatures(ctx, 'C02.nasa7', obj, case['T_low'], case['T_high'])


def check_nasa9(case, ctx):
    from pmutt.empirical.nasa import Nasa9, SingleNasa9
    pts = case['pts']
    segs = [SingleNasa9(T_low=pts[i], T_high=pts[i + 1], a=np.array(case['a'][i])) for i in range(len(case['a']))]
    obj = Nasa9(name='X', nasas=[segs[i] for i in case['order']], elements={'H': 2})
    pristine = copy.deepcopy(obj)
    nseg = len(segs)
    interior = pts[1:-1]
    near = any(abs(t - b) <= 1e-6 * b for t in case['T'] for b in interior)
    segs_hit = {max(0, min(nseg - 1, int(np.searchsorted(pts, t, side='right')) - 1)) for t in case['T']}
    ctx.nontrivial(len(segs_hit) >= 2 or near)
    ctx.label('kind:' + case['kind'], 'segments:%d' % nseg)
    allsc = []
    for T in case['T']:
        cands = [i for i in range(nseg) if pts[i] <= T <= pts[i + 1]]
        assert cands, 'generated T outside every segment'
        got = (obj.get_CpoR(T=T), obj.get_HoRT(T=T), obj.get_SoR(T=T))
        ok = False
        for i in cands:       # at an interior boundary either neighbour is accepted, but the same one for Cp, H and S
            terms = ref.nasa9_terms(case['a'][i], T)
            if all(abs(g_ - ref.tsum(t_)[0]) <= 1e-12 * (abs(ref.tsum(t_)[0]) + ref.tsum(t_)[1]) for g_, t_ in zip(got, terms)):
                ok = True
                seg = i
                break
        if not ok:
            ctx.fail('C02.nasa9/segment', 'T=%r (Cp,H,S)/R=%r matches none of the containing segments %r' % (T, got, cands))
            seg = cands[0]
        scales = _scalar_vs_ref(ctx, 'C02.nasa9', obj, T, ref.nasa9_terms(case['a'][seg], T))
        allsc.append(scales)
        if len(cands) == 1:
            _derivatives(ctx, 'C02.nasa9', obj, T, pts[seg], pts[seg + 1], scales)
    # outside every segment: refused, never a number
    out = {'below': math.nextafter(pts[0], -math.inf), 'above': math.nextafter(pts[-1], math.inf),
           'far-below': pts[0] * 0.5, 'far-above': pts[-1] * 1.5}[case['outside']]
    for g in GETTERS:
        try:
            v = getattr(obj, g)(T=out)
        except ValueError:
            continue
        ctx.fail('C02.nasa9/outside-not-refused:%s' % g, 'T=%r range %r..%r returned %r' % (out, pts[0], pts[-1], v))
    try:
        v = obj.get_CpoR(T=[case['T'][0], out])
        ctx.fail('C02.nasa9/outside-not-refused:array', 'T=%r returned %r' % ([case['T'][0], out], v))
    except ValueError:
        pass
    except Exception:
        pass   # an array-path crash is reported by the array clause below
    _array_clause(ctx, 'C02.nasa9', obj, case['T'], case['as'], allsc, pristine=pristine)
    from pmutt.empirical import nasa as _n
    fns = (_n.get_nasa9_CpoR, _n.get_nasa9_HoRT, _n.get_nasa9_SoR)
    for a_ in case['a'][:2]:
        _helpers(ctx, 'C02.nasa9', fns, a_, list(case['T']), lambda T_, a_=a_: ref.nasa9_terms(a_, T_), 'scalar')
    _int_temperatures(ctx, 'C02.nasa9', obj, pts[0], pts[-1])
    # a single segment on its own
    s0 = segs[0]
    Ts = [t for t in case['T'] if pts[0] <= t <= pts[1]] or [0.5 * (pts[0] + pts[1])]
    Ts = Ts + [0.5 * (pts[0] + pts[1])]
    sc0 = [tuple(ref.tsum(x)[1] for x in ref.nasa9_terms(case['a'][0], t)) for t in Ts]
    _array_clause(ctx, 'C02.single9', s0, Ts, case['as'], sc0, getters=['get_CpoR', 'get_HoRT', 'get_SoR'], dims=[])


def check_shomate(case, ctx):
    from pmutt import constants as c
    from pmutt.empirical.shomate import Shomate
    obj = Shomate(name='X', T_low=case['T_low'], T_high=case['T_high'], a=np.array(case['a']), units=case['units'],
                  elements={'H': 2})
    Ru = c.R(case['units'])
    ctx.nontrivial(case['units'] != 'J/mol/K' or len(case['T']) >= 2)
    ctx.label('kind:' + case['kind'], 'units:' + case['units'])
    allsc = []
    for T in case['T']:
        scales = _scalar_vs_ref(ctx, 'C02.shomate', obj, T, ref.shomate_terms(case['a'], T, Ru))
        allsc.append(scales)
        # one polynomial over the whole range: derivative identities hold everywhere (extrapolation included)
        _derivatives(ctx, 'C02.shomate', obj, T, 0.5 * case['T_low'], 2 * case['T_high'], scales)
    _array_clause(ctx, 'C02.shomate', obj, case['T'], case['as'], allsc)
    from pmutt.empirical import shomate as _s
    fns = (_s.get_shomate_CpoR, _s.get_shomate_HoRT, _s.get_shomate_SoR, _s.get_shomate_GoRT)
    _helpers(ctx, 'C02.shomate', fns, case['a'], list(case['T']), lambda T_: ref.shomate_terms(case['a'], T_, Ru), 'iterable', units=case['units'])
    _int_temperatures(ctx, 'C02.shomate', obj, case['T_low'], case['T_high'])


WATER = {'T_low': 200., 'T_mid': 1610.97, 'T_high': 3500.,
         'a_low': [3.99113454e+00, -2.58891580e-04, 6.01217450e-07, 1.29027890e-09, -6.37910850e-13, -3.03077050e+04,
                   -1.86322080e-01],
         'a_high': [2.54737665e+00, 3.27640080e-03, -9.37740110e-07, 1.28040310e-10, -6.79980140e-15, -2.98876450e+04,
                    7.82329050e+00], 'kind': 'physical', 'T': [1610.97, 300., 3000.], 'as': 'ndarray', 'shuffle': False}

CLAUSES = [
    Clause('C02.nasa7', nasa7_case(), check_nasa7, 1000, 6000,
           'T_low<T_mid<T_high in 50-6000 K; a_low, a_high physical / arbitrary (1e-30..1e12, zeros) / unit vectors; 1-12 '
           'temperatures inside the range incl. T_mid, nextafter(T_mid,+-), range ends; closed form with the upper segment at '
           'T_mid, G=H-TS, Richardson dH/dT=Cp and T dS/dT=Cp inside segments, array (list/ndarray) = scalars for 4 '
           'dimensionless + 4 dimensional getters. Non-trivial = both segments in one array or T within 1e-6 of T_mid',
           examples=[WATER]),
    Clause('C02.nasa9', nasa9_case(), check_nasa9, 1000, 6000,
           '1-4 contiguous segments listed in any order; same oracles; at an interior boundary either neighbour accepted; a '
           'temperature outside every segment (adjacent float or far) must raise ValueError from every getter; SingleNasa9 '
           'array = scalars. Non-trivial = >= 2 segments hit or T next to an interior boundary'),
    Clause('C02.shomate', shomate_case(), check_shomate, 1000, 6000,
           '8 coefficients, every key of constants.R as fitting unit; same oracles over one segment. Non-trivial = non-default '
           'unit or >= 2 temperatures'),
]
ASSUMPTIONS = ['closed forms typed from the NASA-7/NASA-9/Shomate definitions in vf/ref.py; tolerance 1e-12 x (sum of |terms|)',
               'array = scalars is judged at rtol 1e-13 (vectorised and scalar pow may differ in the last bit)',
               'species built with phase=None (no correction models: those are C13)']

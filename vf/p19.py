"""C19 - phase diagrams and energy spans select the true extrema."""
import numpy as np
from hypothesis import strategies as st

from vf import gen
from vf.core import Clause

NAMES = ['A', 'B', 'C', 'D', 'E', 'F', 'G2', 'H2', 'O2', 'CO2']
UNITS = [None, None, 'kJ/mol', 'eV', 'kcal/mol', 'J/mol']


def _species(draw, nm):
    if draw(st.booleans()):
        d = draw(gen.nasa_desc(name=nm))
        d['phase'] = draw(st.sampled_from(['G', 'G', 'S']))
        sh = draw(st.floats(-2e3, 2e3))
        d['a_low'][5] += sh
        d['a_high'][5] += sh
        return d
    d = draw(gen.statmech_desc(name=nm, vib_kinds=('harmonic', None), gas=draw(st.booleans()), allow_imag=False))
    d['elec'] = {'E': draw(st.floats(-0.3, 0.3)), 'spin': 0}
    return d


@st.composite
def diagram_case(draw):
    nsp = draw(st.integers(2, 6))
    names = NAMES[:nsp]
    species = [_species(draw, nm) for nm in names]
    nrx = draw(st.integers(1, 8))
    idx = st.integers(0, nsp - 1)
    coef = st.sampled_from([1.0, 1.0, 2.0, 0.5, 3.0])
    rxns = []
    for _ in range(nrx):
        rxns.append({'react': draw(st.lists(st.tuples(idx, coef).map(list), min_size=1, max_size=3)),
                     'prod': draw(st.lists(st.tuples(idx, coef).map(list), min_size=1, max_size=2))})
    norm = draw(st.one_of(st.none(), st.lists(st.floats(0.25, 8.0), min_size=nrx, max_size=nrx),
                          st.lists(st.integers(1, 8), min_size=nrx, max_size=nrx)))      # whole numbers typed as integers too

    def axis(kind, nmax=30):
        n = draw(st.integers(1, nmax))
        if kind == 'T':
            vals = [draw(st.floats(250, 1800)) for _ in range(n)]
        else:
            vals = [draw(gen.logf(1e-6, 1e2)) for _ in range(n)]
        if draw(st.booleans()):
            vals = sorted(vals)
        return vals
    kinds = ['T', 'P', 'species-P']
    k1 = draw(st.sampled_from(kinds))
    k2 = draw(st.sampled_from([k for k in kinds if k != k1]))
    # the 2-D grid is kept below ~150 points (cost); either axis can still reach 30 values
    if draw(st.booleans()):
        a1 = axis(k1)
        a2 = axis(k2, max(1, min(30, 150 // len(a1))))
    else:
        a2 = axis(k2)
        a1 = axis(k1, max(1, min(30, 150 // len(a2))))
    return {'species': species, 'rxns': rxns, 'norm': norm,
            'x1': {'kind': k1, 'target': draw(idx), 'values': a1},
            'x2': {'kind': k2, 'target': draw(idx), 'values': a2},
            'T': draw(st.floats(250, 1800)), 'P': draw(gen.logf(1e-3, 1e2)), 'units': draw(st.sampled_from(UNITS))}


def _axis_args(ax, names):
    if ax['kind'] == 'T':
        return 'T', list(ax['values'])
    if ax['kind'] == 'P':
        return 'P', list(ax['values'])
    return '%s_kwargs' % names[ax['target']], [{'P': v} for v in ax['values']]


def check_diagram(case, ctx):
    from pmutt import constants as c
    from pmutt.reaction import Reaction
    from pmutt.reaction.phasediagram import PhaseDiagram
    sp = [gen.build_species(d) for d in case['species']]
    names = [d['name'] for d in case['species']]
    rxns = []
    for r in case['rxns']:
        rxns.append(Reaction(reactants=[sp[i] for i, _ in r['react']], reactants_stoich=[c_ for _, c_ in r['react']],
                             products=[sp[i] for i, _ in r['prod']], products_stoich=[c_ for _, c_ in r['prod']]))
    norm = None if case['norm'] is None else np.array(case['norm'])      # (an integer list gives an integer array)
    pd = PhaseDiagram(reactions=rxns, norm_factors=norm)
    if norm is not None and len(rxns) % 2 == 0:
        # the normalisation factors are a public attribute: a diagram built with other factors and handed these afterwards
        # is the same diagram (half of the cases, decided by the generated reaction count)
        pd = PhaseDiagram(reactions=rxns, norm_factors=np.asarray(norm, dtype=float)[::-1] * 3 + 1)
        pd.norm_factors = norm
        ctx.label('norm_factors-assigned-after-construction')
    nf = np.ones(len(rxns)) if norm is None else np.asarray(norm, dtype=float)
    u = case['units']
    n1, v1 = _axis_args(case['x1'], names)
    n2, v2 = _axis_args(case['x2'], names)
    base = {'T': case['T'], 'P': case['P']}

    def ref_value(i, conds):
        T = conds['T']
        g = rxns[i].get_delta_GoRT(**conds) / nf[i]
        if u is not None:
            g *= c.R(u + '/K') * T
        return g

    def check_argmin(tag, col, got, where):
        col = np.asarray(col)
        m = np.nanmin(col)
        gi = int(got)
        if not (0 <= gi < len(col)) or gi != got:
            ctx.fail(tag + '/stable-index-invalid', '%s: %r' % (where, got))
            return
        if not col[gi] <= m + 1e-12 * (1 + abs(m)):
            ctx.fail(tag + '/stable-not-minimum', '%s: reported %d (%.6g) but minimum is %d (%.6g)' % (
                where, gi, col[gi], int(np.nanargmin(col)), m))

    # ---- one-parameter scan ------------------------------------------------
    G1, stable1 = pd.get_GoRT_1D(x_name=n1, x_values=v1, G_units=u, **dict(base))
    G1 = np.asarray(G1)
    if G1.shape != (len(rxns), len(v1)):
        ctx.fail('C19.diagram/1D-table-shape', 'shape %r expected %r' % (G1.shape, (len(rxns), len(v1))))
        return
    ref1 = np.zeros_like(G1)
    for i in range(len(rxns)):
        for j, x in enumerate(v1):
            conds = dict(base)
            conds[n1] = x
            ref1[i, j] = ref_value(i, conds)
    ctx.close('C19.diagram/1D-table', G1, ref1, rtol=1e-12, atol=1e-12 * (1 + np.abs(ref1).max()))
    stable1 = np.asarray(stable1)
    if stable1.shape != (len(v1),):
        ctx.fail('C19.diagram/1D-stable-shape', 'stable_phases shape %r for %d reactions x %d grid values' % (
            stable1.shape, len(rxns), len(v1)))
    else:
        for j in range(len(v1)):
            check_argmin('C19.diagram/1D', ref1[:, j], stable1[j], 'grid %d' % j)
    order_changes = len(set(np.argmin(ref1, axis=0).tolist())) >= 2
    # ---- two-parameter scan ------------------------------------------------
    G2, stable2 = pd.get_GoRT_2D(x1_name=n1, x1_values=v1, x2_name=n2, x2_values=v2, G_units=u, **dict(base))
    G2 = np.asarray(G2)
    stable2 = np.asarray(stable2)
    if G2.shape != (len(rxns), len(v1), len(v2)):
        ctx.fail('C19.diagram/2D-table-shape', 'shape %r' % (G2.shape,))
        return
    ref2 = np.zeros_like(G2)
    for i in range(len(rxns)):
        for j, x1 in enumerate(v1):
            for k, x2 in enumerate(v2):
                conds = dict(base)
                conds[n1] = x1
                conds[n2] = x2
                ref2[i, j, k] = ref_value(i, conds)
    ctx.close('C19.diagram/2D-table', G2, ref2, rtol=1e-12, atol=1e-12 * (1 + np.abs(ref2).max()),
              detail='x1=%s x2=%s units=%s' % (n1, n2, u))
    if stable2.shape != (len(v1), len(v2)):
        ctx.fail('C19.diagram/2D-stable-shape', 'shape %r expected %r' % (stable2.shape, (len(v1), len(v2))))
    else:
        for j in range(len(v1)):
            for k in range(len(v2)):
                check_argmin('C19.diagram/2D', ref2[:, j, k], stable2[j, k], 'grid %d,%d' % (j, k))
    # ---- a 2-D scan with a singleton second axis is the 1-D scan --------------
    fixed = {'T': ('T', case['T']), 'P': ('P', case['P']),
             'species-P': (n2, {'P': case['P']})}[case['x2']['kind']]
    G2s, st2s = pd.get_GoRT_2D(x1_name=n1, x1_values=v1, x2_name=fixed[0], x2_values=[fixed[1]], G_units=u,
                               **dict(base))
    G2s = np.asarray(G2s)
    if case['x2']['kind'] == 'species-P':
        conds0 = dict(base)
        conds0[fixed[0]] = fixed[1]
        G1b, st1b = pd.get_GoRT_1D(x_name=n1, x_values=v1, G_units=u, **conds0)
    else:
        G1b, st1b = G1, stable1
    ctx.close('C19.diagram/2D-singleton=1D:table', G2s[:, :, 0], np.asarray(G1b), rtol=1e-12,
              atol=1e-12 * (1 + np.abs(ref1).max()))
    if np.asarray(st1b).shape == (len(v1),) and np.asarray(st2s).shape == (len(v1), 1):
        for j in range(len(v1)):
            col = np.asarray(G1b)[:, j]
            a, b = int(np.asarray(st2s)[j, 0]), int(np.asarray(st1b)[j])
            if a != b and abs(col[a] - col[b]) > 1e-12 * (1 + abs(col[a])):
                ctx.fail('C19.diagram/2D-singleton=1D:stable', 'grid %d: %d vs %d' % (j, a, b))
    ctx.nontrivial(len(rxns) >= 3 and order_changes)
    ctx.label('x1:' + case['x1']['kind'], 'x2:' + case['x2']['kind'], 'units:%s' % u)
    if order_changes:
        ctx.label('ordering-changes-along-grid')


# ---------------------------------------------------------------------------
@st.composite
def span_case(draw):
    n = draw(st.integers(1, 8))
    species = []
    # distinct levels (meV grid) so that the order of the extrema is well defined
    levels = draw(st.lists(st.integers(-3000, 5000), min_size=2 * n + 1, max_size=2 * n + 1, unique=True))
    for k in range(n + 1):
        species.append({'cls': 'StatMech', 'name': 'I%d' % k, 'trans': draw(st.one_of(st.none(), gen.trans_st)), 'rot': None, 'nucl': False,
                        'vib': draw(st.one_of(st.none(), gen.harmonic_st(allow_imag=False))),
                        'elec': {'E': levels[k] / 1000.0, 'spin': 0}})
    ts = []
    for k in range(n):
        if draw(st.booleans()):
            ts.append({'cls': 'StatMech', 'name': 'TS%d' % k, 'trans': None, 'rot': None, 'nucl': False,
                       'vib': draw(st.one_of(st.none(), gen.harmonic_st(allow_imag=False))),
                       'elec': {'E': levels[n + 1 + k] / 1000.0, 'spin': 0}})
        else:
            ts.append(None)
    # the walk through the intermediates: mostly a chain, sometimes a step back to an earlier (non-adjacent) intermediate
    walk = [0]
    nxt = 1
    for k in range(n):
        back = [i for i in range(nxt) if i != walk[-1]]
        if back and k >= 2 and draw(st.integers(0, 5)) == 0:
            walk.append(draw(st.sampled_from(back)))
        else:
            walk.append(nxt)
            nxt += 1
    return {'species': species, 'ts': ts, 'walk': walk, 'T': draw(st.floats(250, 1500)), 'P': draw(gen.logf(1e-3, 1e2)),
            'P2': draw(gen.logf(1e-3, 1e2)), 'T2': draw(st.floats(250, 1500)),
            'units': draw(st.sampled_from(['kJ/mol', 'eV', 'kcal/mol'])), 'coef': draw(st.sampled_from([1.0, 1.0, 2.0]))}


def check_span(case, ctx):
    from pmutt.reaction import Reaction, Reactions
    from pmutt.reaction.network import Network, state_to_set
    sp = [gen.build_species(d) for d in case['species']]
    tsp = [None if d is None else gen.build_species(d) for d in case['ts']]
    cf = case['coef']
    rxns = []
    walk = case.get('walk') or list(range(len(tsp) + 1))
    for k in range(len(tsp)):
        rxns.append(Reaction(reactants=[sp[walk[k]]], reactants_stoich=[cf], products=[sp[walk[k + 1]]], products_stoich=[cf],
                             transition_state=None if tsp[k] is None else [tsp[k]],
                             transition_state_stoich=None if tsp[k] is None else [cf]))
    T, u = case['T'], case['units']
    P = case.get('P', 1.0)

    def oracle(T_, P_):
        """-> (expected span, highest-before-lowest, scale, ambiguous) from the harness's own state list"""
        def G(s):
            return cf * float(gen.call(s.get_G, units=u, T=T_, P=P_))
        path_states = []  # distinct states along the path
        for k, r in enumerate(rxns):
            if k == 0:
                path_states.append(G(sp[walk[k]]))
            if tsp[k] is not None:
                path_states.append(G(tsp[k]))
            path_states.append(G(sp[walk[k + 1]]))
        i_max = int(np.argmax(path_states))
        i_min = int(np.argmin(path_states))
        e = path_states[i_max] - path_states[i_min]
        if i_max < i_min:
            e += path_states[-1] - path_states[0]
        # generic position only: the highest and the lowest state must each be attained once (a tie - two states of equal
        # energy, or a revisited state that is an extremum - would make "comes before" ambiguous)
        hi, lo = path_states[i_max], path_states[i_min]
        amb = sum(1 for v in path_states if abs(v - hi) < 1e-9 * (1 + abs(hi))) > 1 or \
            sum(1 for v in path_states if abs(v - lo) < 1e-9 * (1 + abs(lo))) > 1
        return e, i_max < i_min, max(abs(x) for x in path_states) + 1, amb
    expect, before, scale, amb = oracle(T, P)
    if amb:
        ctx.exclude('two different states with (nearly) equal Gibbs energy: order of extrema ambiguous')
        return
    ctx.label('max-before-min' if before else 'max-after-min', 'with-ts' if any(t is not None for t in tsp) else 'no-ts')
    ctx.nontrivial(before or any(t is not None for t in tsp))
    given = list(rxns)
    seq_obj = Reactions(reactions=given)
    got = seq_obj.get_E_span(units=u, T=T, P=P)
    ctx.close('C19.span/Reactions.get_E_span', got, expect, rtol=1e-11, atol=1e-11 * scale)
    # the sequence object is the sequence it was built from: later edits of the caller's list do not reach it
    given.append(given[0])
    given.reverse()
    ctx.close('C19.span/Reactions.get_E_span:after-caller-edits-its-list', seq_obj.get_E_span(units=u, T=T, P=P), got, rtol=0)
    if len(seq_obj.reactions) != len(rxns):
        ctx.fail('C19.span/sequence-follows-callers-list', '%d steps given, %d held after the caller appended to its list' % (
            len(rxns), len(seq_obj.reactions)))
    net = Network(reactions=rxns)
    path = [state_to_set([sp[walk[0]]], [cf])]
    for k in range(len(rxns)):
        if tsp[k] is not None:
            path.append(state_to_set([tsp[k]], [cf]))
        path.append(state_to_set([sp[walk[k + 1]]], [cf]))
    got = net.get_E_span(path=path, units=u, T=T, P=P)
    ctx.close('C19.span/Network.get_E_span', got, expect, rtol=1e-11, atol=1e-11 * scale)
    from pmutt import constants as c
    got = net.get_E_span(path=path, units=None, T=T, P=P)
    ctx.close('C19.span/Network.get_E_span(dimensionless)', got * c.R(u + '/K') * T, expect, rtol=1e-11,
              atol=1e-11 * scale)
    # the same objects asked again under other conditions (another pressure at the same T, then another T)
    seq2 = Reactions(reactions=list(rxns))
    seq2.get_E_span(units=u, T=T, P=P)
    for T_, P_ in ((T, case.get('P2', 1.0)), (case.get('T2', T), P)):
        e2, _, sc2, amb2 = oracle(T_, P_)
        if amb2:
            continue
        ctx.close('C19.span/Network.get_E_span:asked-again-at-other-conditions', net.get_E_span(path=path, units=u, T=T_, P=P_), e2,
                  rtol=1e-11, atol=1e-11 * sc2, detail='T=%r P=%r after T=%r P=%r' % (T_, P_, T, P))
        ctx.close('C19.span/Reactions.get_E_span:asked-again-at-other-conditions', seq2.get_E_span(units=u, T=T_, P=P_), e2,
                  rtol=1e-11, atol=1e-11 * sc2, detail='T=%r P=%r after T=%r P=%r' % (T_, P_, T, P))


CLAUSES = [
    Clause('C19.diagram', diagram_case(), check_diagram, 70, 800,
           '1-8 reactions over 2-6 Nasa/StatMech species, normalisation factors 0.25-8 or default, two scan variables from '
           '{T, P, <species>_kwargs pressure} with 1-30 (unsorted) values each, G_units None or an energy unit: table entry = the '
           'reaction\'s own delta G/RT / norm (x R T), stable index at each grid point is a minimiser of its column (1-D and 2-D), '
           'result shapes, 2-D scan with singleton second axis = 1-D scan. Non-trivial = >= 3 reactions whose ordering changes '
           'along the grid', quick_shards=4),
    Clause('C19.span', span_case(), check_span, 400, 4000,
           'chains of 1-8 steps I0 -> I1 -> ... with optional TS per step, random levels (electronic energy +- harmonic '
           'vibrations): Reactions.get_E_span and Network.get_E_span on the path (with and without units) = max - min (+ G_last - '
           'G_first iff the highest state comes first) from the harness\'s own state list. Non-trivial = highest before lowest or '
           'any TS', quick_shards=2),
]
ASSUMPTIONS = ['reaction delta G values are taken from Reaction.get_delta_GoRT (judged by C08)',
               'cases where two different states are within 1e-9 relative in G are excluded (order of extrema ambiguous)']

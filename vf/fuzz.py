"""Coverage-guided tier: python -m vf.fuzz <PID> <clause> <runs> <seed> <outdir>

atheris (libFuzzer) drives the clause's Hypothesis strategy through
test.hypothesis.fuzz_one_input with pmutt instrumented for coverage; the oracle
is the clause's own check.  Statistics are written to <outdir>/stats.json (libFuzzer
does not run atexit handlers), a failing descriptor to <outdir>/replay-*.json.
"""
import json
import os
import sys

ROOT = os.path.dirname(os.path.dirname(os.path.abspath(__file__)))
sys.path.insert(0, os.path.join(ROOT, '.deps'))
sys.path.insert(0, ROOT)


def main(argv):
    pid, cname, runs, seed, outdir = argv[1], argv[2], int(argv[3]), int(argv[4]), argv[5]
    os.makedirs(outdir, exist_ok=True)
    import atheris
    with atheris.instrument_imports(include=['pmutt']):
        import pmutt  # noqa: F401
        import pmutt.reaction  # noqa: F401
        import pmutt.cantera  # noqa: F401
        import pmutt.io.cantera  # noqa: F401
        import pmutt.io.thermdat  # noqa: F401
        import pmutt.empirical.nasa  # noqa: F401
        import pmutt.mixture.cov  # noqa: F401
        import pmutt.io.chemkin  # noqa: F401
        import pmutt.io.omkm  # noqa: F401
        import pmutt.omkm.reaction  # noqa: F401
        import pmutt.io.json  # noqa: F401
    from hypothesis import HealthCheck, given, settings
    from vf import core, run
    mod = run.load(pid)
    clause = run.find_clause(mod, cname)
    known = core.Known(pid)
    stats = {'property': pid, 'clause': cname, 'execs': 0, 'nontrivial': 0, 'hashes': 0, 'known_hits': 0, 'violation': None}
    seen = set()

    def dump():
        stats['hashes'] = len(seen)
        with open(os.path.join(outdir, 'stats.json'), 'w') as f:
            json.dump(stats, f)

    def body(case):
        ctx = clause.evaluate(case)
        stats['execs'] += 1
        if ctx.is_nontrivial:
            h = core.jhash(case)
            if h not in seen:
                seen.add(h)
                stats['nontrivial'] += 1
        unknown = []
        for f_ in ctx.failures:
            if known.match(f_.sig) is None:
                unknown.append(f_)
            else:
                stats['known_hits'] += 1
        if stats['execs'] % 500 == 0:
            dump()
        if unknown:
            path = os.path.join(outdir, 'replay-%s.json' % core.jhash([cname, unknown[0].sig, case]))
            with open(path, 'w') as f:
                json.dump({'property': pid, 'clause': cname, 'signature': unknown[0].sig, 'detail': unknown[0].detail,
                           'case': core.jsonable(case)}, f, indent=1, sort_keys=True)
            stats['violation'] = {'signature': unknown[0].sig, 'replay': path, 'detail': unknown[0].detail}
            dump()
            raise AssertionError(unknown[0].sig)

    test = settings(database=None, deadline=None, suppress_health_check=list(HealthCheck))(given(clause.strategy)(body))
    corpus = os.path.join(outdir, 'corpus')
    os.makedirs(corpus, exist_ok=True)
    # Hypothesis reads the bytes as its choice sequence: short inputs are rejected before the test body runs, so the
    # corpus starts from a few long pseudo-random strings (derived from the seed with a hash, no RNG of our own)
    import hashlib
    for k in range(8):
        blob = b''.join(hashlib.blake2b(b'%d-%d-%d' % (seed, k, j), digest_size=64).digest() for j in range(48))
        with open(os.path.join(corpus, 'seed-%d' % k), 'wb') as f:
            f.write(blob)
    dump()
    atheris.Setup([argv[0], '-runs=%d' % runs, '-seed=%d' % seed, '-max_len=8192', '-len_control=0', '-print_final_stats=1',
                   '-artifact_prefix=%s/' % outdir, corpus],
                  test.hypothesis.fuzz_one_input)
    atheris.Fuzz()


if __name__ == '__main__':
    main(sys.argv)

"""C10 - reference adjustment reproduces the experimental enthalpies it was fitted to."""
import numpy as np
from hypothesis import strategies as st

from vf import gen
from vf.core import Clause

DESCS = ['H', 'C', 'O', 'N', 'Pt']
GROUPS = ['CH3', 'CH2', 'OH', 'CO', 'NH2']


@st.composite
def refs_case(draw):
    use_groups = draw(st.sampled_from([False, False, True]))
    pool = GROUPS if use_groups else DESCS
    if use_groups and draw(st.booleans()):
        # free-form descriptor names: mixed case, digits, names that sort differently with and without case
        pool = draw(st.permutations(['CH3', 'Ca', 'cH2', 'OH', 'Oa', 'b1', 'B2', 'Zn']))
    nd = draw(st.integers(1, 5))
    descs = list(pool[:nd])
    nref = draw(st.integers(1, 8))
    rank_mode = draw(st.sampled_from(['any', 'any', 'duplicate-row', 'missing-descriptor', 'late-descriptor']))
    comps = []
    for i in range(nref):
        comp = {d: draw(st.integers(0, 6)) for d in descs}
        if rank_mode == 'missing-descriptor':
            comp[descs[-1]] = 0
        if all(v == 0 for v in comp.values()):
            comp[descs[0]] = 1
        comps.append({d: v for d, v in comp.items() if v or draw(st.booleans())})
        if rank_mode == 'late-descriptor' and nd >= 2 and nref >= 2:
            # the last descriptor is first mentioned by the last reference (it arrives through the history)
            if i < nref - 1:
                comps[-1].pop(descs[-1], None)
                if not any(comps[-1].values()):
                    comps[-1][descs[0]] = 1
            else:
                comps[-1][descs[-1]] = max(1, comp[descs[-1]])
    if rank_mode == 'duplicate-row' and nref >= 2:
        comps[-1] = dict(comps[0])
    T0 = draw(st.sampled_from([298.15, 298.0, 300.0, 500.0, 273.15, 1000.0]))
    spread = draw(st.sampled_from([0.0, 0.0, 0.0, 1.0]))
    refs = []
    for i in range(nref):
        model = draw(gen.statmech_desc(name='ref%d' % i, vib_kinds=('harmonic', None), gas=draw(st.booleans()),
                                       allow_imag=False))
        model['elec'] = {'E': draw(st.floats(-100, 0)), 'spin': 0}
        refs.append({'comp': comps[i], 'model': model, 'T_ref': T0 + spread * draw(st.floats(0, 1))})
    hidden = {d: draw(st.floats(-50, 50)) for d in descs}
    noise = draw(st.sampled_from(['consistent', 'consistent', 'noisy']))
    noise_v = [draw(st.floats(-5, 5)) for _ in range(nref)]
    tmodel = draw(gen.statmech_desc(name='target', vib_kinds=('harmonic', None), gas=draw(st.booleans()),
                                    allow_imag=False))
    tmodel['elec'] = {'E': draw(st.floats(-100, 0)), 'spin': 0}
    tcomp = {d: draw(st.integers(0, 8)) for d in draw(st.permutations(descs + ['Zz']))
             if draw(st.integers(0, 3)) > 0}
    tcomp2 = {d: draw(st.integers(0, 8)) for d in descs if draw(st.booleans())}
    hist = []
    for _ in range(draw(st.integers(0, 4))):
        hist.append({'op': draw(st.sampled_from(['append', 'extend', 'pop', 'remove', 'refit'])),
                     'j': draw(st.integers(0, 7))})
    if rank_mode == 'late-descriptor':
        hist.append({'op': draw(st.sampled_from(['extend', 'extend', 'refit'])), 'j': 0})
    return {'descriptor': 'groups' if use_groups else 'elements', 'descs': descs, 'refs': refs, 'hidden': hidden,
            'noise': noise, 'noise_v': noise_v, 'target': tmodel, 'tcomp': tcomp, 'tcomp2': tcomp2,
            'T': [draw(st.floats(100, 3000)) for _ in range(3)], 'history': hist,
            'units': draw(st.sampled_from(['kJ/mol', 'eV', 'kcal/mol', 'J/mol']))}


def _make_ref(case, rd, A_row, descs):
    from pmutt.empirical.references import Reference
    model = gen.build_statmech(rd['model'])
    dft = float(model.get_HoRT(T=rd['T_ref']))
    kw = {'name': rd['model']['name'], 'model': model, 'T_ref': rd['T_ref'], 'HoRT_ref': 0.0}
    if case['descriptor'] == 'elements':
        kw['elements'] = dict(rd['comp'])
    ref = Reference(**kw)
    if case['descriptor'] != 'elements':
        ref.groups = dict(rd['comp'])
    return ref, dft


def check_refs(case, ctx):
    import warnings
    from pmutt import constants as c
    from pmutt.empirical.references import References
    descs = case['descs']
    dname = case['descriptor']
    n = len(case['refs'])
    A = np.array([[float(r['comp'].get(d, 0)) for d in descs] for r in case['refs']])
    refs, dft = [], []
    for i, rd in enumerate(case['refs']):
        r, h = _make_ref(case, rd, A[i], descs)
        refs.append(r)
        dft.append(h)
    dft = np.array(dft)
    hidden = np.array([case['hidden'][d] for d in descs])
    # experimental values: DFT minus a composition-linear shift (consistent), optionally plus noise
    exp = dft - A @ hidden
    if case['noise'] == 'noisy':
        exp = exp + np.array(case['noise_v'][:n])
    for r, e in zip(refs, exp):
        r.HoRT_ref = float(e)
    T_refs = np.array([rd['T_ref'] for rd in case['refs']])
    equal_T = bool(np.all(np.isclose(T_refs[0], T_refs)))

    # ---- history: build through append / extend / pop / remove, refit ----------
    live = list(range(n))
    early = None
    if case['history']:
        k0 = max(1, n // 2)
        obj = References(references=[refs[i] for i in range(k0)], descriptor=dname)
        # a species that is handed the references now, before they grow and are refitted
        if dname == 'elements' and case['tcomp']:
            early = gen.build_statmech(dict(case['target'], elements=dict(case['tcomp'])), references=obj)
        live = list(range(k0))
        rest = list(range(k0, n))
        for h in case['history']:
            op = h['op']
            if op == 'append' and rest:
                i = rest.pop(0)
                obj.append(refs[i])
                live.append(i)
            elif op == 'extend' and rest:
                obj.extend([refs[i] for i in rest])
                live.extend(rest)
                rest = []
            elif op == 'pop' and len(live) > 1:
                j = h['j'] % len(live)
                if j == len(live) - 1 and h['j'] % 2:
                    obj.pop()               # documented list semantics: the last one by default
                else:
                    obj.pop(j)
                live.pop(j)
            elif op == 'remove' and len(live) > 1:
                j = h['j'] % len(live)
                obj.remove(refs[live[j]])
                live.pop(j)
            elif op == 'refit':
                obj.fit_HoRT_offset()
        obj.fit_HoRT_offset()
        ctx.label('history')
        fresh = References(references=[refs[i] for i in live], descriptor=dname)
        if [id(x) for x in obj.references] != [id(refs[i]) for i in live]:
            ctx.fail('C10.refs/history-membership', 'references after the history differ from the model list')
            return
        keys = sorted(set(obj.offset) | set(fresh.offset))
        ctx.close('C10.refs/history=fresh-fit', [obj.offset.get(k_, np.nan) for k_ in keys],
                  [fresh.offset.get(k_, np.nan) for k_ in keys], rtol=1e-9, atol=1e-9)
        ctx.close('C10.refs/history:T_ref', obj.T_ref, fresh.T_ref, rtol=1e-14)
    else:
        obj = References(references=list(refs), descriptor=dname)
    Al = A[live]
    # descriptors the live references actually mention (columns of the library's matrix)
    present = [j for j, d in enumerate(descs) if any(d in case['refs'][i]['comp'] for i in live)]
    Ap = Al[:, present]
    rank = np.linalg.matrix_rank(Ap) if Ap.size else 0
    full = rank == len(present)
    T_ref = float(obj.T_ref)
    ctx.close('C10.refs/T_ref=mean', T_ref, float(np.mean(T_refs[live])), rtol=1e-14)
    scale = 1 + float(np.max(np.abs(dft))) + float(np.max(np.abs(exp)))
    # exact reproduction is only claimed for identical reference temperatures
    eqT = bool(np.all(T_refs[live] == T_refs[live][0]))
    ctx.label('rank:%s' % ('full' if full else 'deficient'), case['noise'], 'T_ref:%s' % ('equal' if eqT else 'spread'),
              'descriptor:' + dname)
    ctx.nontrivial((len(present) >= 2 and len(live) >= 3) or not full or
                   any(h['op'] in ('pop', 'remove') for h in case['history']))

    # ---- apply to each reference species -----------------------------------------
    def adjusted(i, T):
        rd = case['refs'][i]
        d = dict(rd['model'])
        kw = {'references': obj}
        if dname == 'elements':
            d['elements'] = dict(rd['comp'])
        sm = gen.build_statmech(d, **kw)
        if dname != 'elements':
            sm.groups = dict(rd['comp'])
        return float(sm.get_HoRT(T=T))
    if eqT:
        with warnings.catch_warnings():
            warnings.simplefilter('ignore')
            adj = np.array([adjusted(i, case['refs'][i]['T_ref']) for i in live])
        resid = adj - exp[live]
        if case['noise'] == 'consistent':
            # the experimental values are reachable: every reference is reproduced
            # (uniquely determined offsets or not: the least-squares solution of a consistent system is exact)
            ctx.close('C10.refs/reproduce', adj, exp[live], rtol=0, atol=1e-8 * scale,
                      detail='full-rank=%s T_ref=%r' % (full, T_ref))
        # least squares: residual orthogonal to the composition matrix
        g = Ap.T @ resid
        nA = np.linalg.norm(Ap) + 1
        ctx.close('C10.refs/lsq-orthogonal', g, np.zeros_like(g), rtol=0,
                  atol=1e-7 * nA * (np.linalg.norm(resid) + scale * 1e-3) + 1e-8 * scale * nA)
        if full and case['noise'] == 'consistent':
            # offsets themselves are then determined: equal to the hidden ones
            ctx.close('C10.refs/offsets', [obj.offset.get(descs[j], np.nan) for j in present], hidden[present], rtol=1e-7,
                      atol=1e-7 * scale)
    # ---- the same three oracles in the fit's own (dimensionless) terms, which do not need equal reference temperatures:
    # every reference's DFT H/RT is taken at ITS OWN T_ref (the harness computed `dft` that way), so
    # r = dft - A.offset - exp is zero for a consistent system, orthogonal to A always, and offset = hidden at full rank
    offv = np.array([obj.offset.get(descs[j]) if obj.offset.get(descs[j]) is not None else np.nan for j in present], dtype=float)
    if len(present) and np.all(np.isfinite(offv)):
        r_own = dft[live] - Ap @ offv - exp[live]
        nA = np.linalg.norm(Ap) + 1
        if case['noise'] == 'consistent':
            ctx.close('C10.refs/reproduce-own-T_ref', r_own, np.zeros_like(r_own), rtol=0, atol=1e-8 * scale * nA,
                      detail='T_refs=%r' % (list(T_refs[live]),))
            if full:
                ctx.close('C10.refs/offsets-own-T_ref', offv, hidden[present], rtol=1e-7, atol=1e-7 * scale)
        g_own = Ap.T @ r_own
        ctx.close('C10.refs/lsq-orthogonal-own-T_ref', g_own, np.zeros_like(g_own), rtol=0,
                  atol=1e-7 * nA * (np.linalg.norm(r_own) + scale * 1e-3) + 1e-8 * scale * nA)
    # ---- composition-linear, T-independent, H and G only ---------------------------
    off = {d: obj.offset.get(d) for d in descs}

    def target(comp, use=True):
        d = dict(case['target'])
        kw = {'references': obj} if use else {}
        if dname == 'elements':
            d['elements'] = dict(comp)
        sm = gen.build_statmech(d, **kw)
        if dname != 'elements':
            sm.groups = dict(comp)
        elif not comp:
            sm.elements = {}
        return sm
    u = case['units']
    Ru = c.R(u + '/K')

    def shift_expected(comp):
        return -Ru * T_ref * sum(off[d] * nn for d, nn in comp.items() if off.get(d) is not None)
    with warnings.catch_warnings():
        warnings.simplefilter('ignore')
        for comp in (case['tcomp'], case['tcomp2']):
            if not comp:
                continue
            withr = target(comp)
            noref = target(comp, use=False)
            exp_shift = shift_expected(comp)
            sc_e = 1 + abs(exp_shift)
            for T in case['T']:
                for g in ('get_H', 'get_G'):
                    d_on = getattr(withr, g)(units=u, T=T) - getattr(withr, g)(units=u, T=T, use_references=False)
                    base = abs(float(getattr(withr, g)(units=u, T=T)))
                    ctx.close('C10.refs/shift:%s' % g, d_on, exp_shift, rtol=1e-9, atol=1e-11 * (base + sc_e),
                              detail='T=%r comp=%r' % (T, comp))
                    # the temperature may equally arrive through the species' own keyword block only
                    blk = {'%s_kwargs' % withr.name: {'T': T}}
                    gd = g.replace('get_H', 'get_HoRT').replace('get_G', 'get_GoRT')
                    ctx.close('C10.refs/T-through-species-kwargs-block:%s' % gd, getattr(withr, gd)(**blk), getattr(withr, gd)(T=T),
                              rtol=1e-12, atol=1e-12 * (1 + abs(exp_shift / (Ru * T))), detail='T=%r comp=%r' % (T, comp))
                    if early is not None and comp is case['tcomp']:
                        d_early = getattr(early, g)(units=u, T=T) - getattr(early, g)(units=u, T=T, use_references=False)
                        ctx.close('C10.refs/shift-seen-by-a-species-built-before-the-refit:%s' % g, d_early, exp_shift, rtol=1e-9,
                                  atol=1e-11 * (base + sc_e), detail='T=%r comp=%r' % (T, comp))
                    off_val = getattr(withr, g)(units=u, T=T, use_references=False)
                    ctx.close('C10.refs/off=no-references:%s' % g, off_val, getattr(noref, g)(units=u, T=T), rtol=0,
                              atol=0)
                for g, kw in (('get_SoR', {}), ('get_CvoR', {}), ('get_CpoR', {})):
                    a = getattr(withr, g)(T=T, **kw)
                    b = getattr(noref, g)(T=T, **kw)
                    if a != b:
                        ctx.fail('C10.refs/contributes-to:%s' % g, 'T=%r: %r vs %r' % (T, a, b))
        # additivity in the composition
        c1, c2 = case['tcomp'], case['tcomp2']
        if c1 and c2:
            both = dict(c1)
            for d, nn in c2.items():
                both[d] = both.get(d, 0) + nn
            T = case['T'][0]

            def sh(comp):
                sm = target(comp)
                return sm.get_H(units=u, T=T) - sm.get_H(units=u, T=T, use_references=False)
            s12, s1, s2 = sh(both), sh(c1), sh(c2)
            ctx.close('C10.refs/additive', s12, s1 + s2, rtol=1e-9,
                      atol=1e-10 * (1 + abs(s1) + abs(s2) + abs(float(target(both).get_H(units=u, T=T)))))
    if 'Zz' in case['tcomp'] and list(case['tcomp']).index('Zz') < len(case['tcomp']) - 1:
        ctx.label('unknown-descriptor-not-last')


CLAUSES = [
    Clause('C10.refs', refs_case(), check_refs, 500, 3000,
           '1-8 references over 1-5 descriptors (elements or a "groups" dictionary), integer compositions 0-6, rank modes '
           '(generic, duplicated row, a descriptor never present), equal or <= 1 K spread reference temperatures (298.15, 298, 300, '
           '500, 273.15, 1000 K), experimental values = DFT - composition-linear hidden shift (consistent) or + noise; optional '
           'history of append/extend/pop/remove/refit; target species with arbitrary composition incl. an unknown descriptor in any '
           'position. Oracles: reproduction at T_ref for consistent systems, A^T r = 0, recovered offsets when full rank, history = '
           'fresh fit, H and G shift = -R T_ref sum(offset n) at every T (T-independent, additive), S/Cv/Cp untouched, exactly '
           'off with use_references=False. Non-trivial = >= 2 descriptors and >= 3 references, or rank-deficient, or a removal',
           quick_shards=4),
]
ASSUMPTIONS = ['reference models are StatMech species whose own H/RT is judged by C01',
               'for unequal reference temperatures only the exact (linearity / T-independence) statements are asserted']

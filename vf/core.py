"""Common machinery: clauses, recorder, failure buckets, known findings, drivers.

A *clause* is (name, Hypothesis strategy drawing a JSON case descriptor,
check(case, ctx)).  check() builds the pMuTT objects from the descriptor with
public constructors only, evaluates the oracle and reports failures through
ctx.fail(signature, detail).  Nothing here imports pmutt.
"""
import fnmatch
import hashlib
import json
import math
import os
import sys
import time
import traceback
import warnings

import hypothesis
from hypothesis import HealthCheck, Phase, given, settings

HERE = os.path.dirname(os.path.abspath(__file__))
ROOT = os.path.dirname(HERE)
REPO = os.environ.get('VERIF_REPO', '/repo')
REPO_PKG = os.path.join(os.path.realpath(REPO), 'pmutt') + os.sep


class HarnessError(Exception):
    pass


class _Violation(Exception):
    pass


class Failure:
    __slots__ = ('sig', 'detail')

    def __init__(self, sig, detail=''):
        self.sig = sig
        self.detail = detail

    def __repr__(self):
        return 'Failure(%s: %s)' % (self.sig, self.detail)


def jhash(case):
    s = json.dumps(case, sort_keys=True, default=str)
    return hashlib.blake2b(s.encode(), digest_size=8).hexdigest()


def jsonable(x):
    """Best effort conversion of numpy scalars/arrays to plain JSON types."""
    try:
        import numpy as np
    except Exception:  # pragma: no cover
        np = None
    if isinstance(x, dict):
        return {str(k): jsonable(v) for k, v in x.items()}
    if isinstance(x, (list, tuple)):
        return [jsonable(v) for v in x]
    if np is not None:
        if isinstance(x, np.ndarray):
            return jsonable(x.tolist())
        if isinstance(x, np.generic):
            return x.item()
    if isinstance(x, float) and (math.isnan(x) or math.isinf(x)):
        return repr(x)
    return x


# ---------------------------------------------------------------------------
class Ctx:
    """Handed to check(): collects failures, labels, non-triviality."""

    def __init__(self):
        self.failures = []
        self.labels = []
        self.is_nontrivial = False
        self.excluded = []

    def fail(self, sig, detail=''):
        self.failures.append(Failure(sig, str(detail)[:600]))

    def label(self, *names):
        self.labels.extend(names)

    def nontrivial(self, flag=True):
        if flag:
            self.is_nontrivial = True

    def exclude(self, reason):
        self.excluded.append(reason)

    # numeric helpers -------------------------------------------------------
    def close(self, sig, a, b, rtol=1e-12, atol=0.0, detail=''):
        """Report `sig` unless a and b (scalars or arrays) agree."""
        import numpy as np
        try:
            a_ = np.asarray(a, dtype=float)
            b_ = np.asarray(b, dtype=float)
        except Exception as e:
            self.fail(sig + ':non-numeric', '%r vs %r (%s) %s' % (a, b, e, detail))
            return False
        if a_.shape != b_.shape:
            try:
                a_, b_ = np.broadcast_arrays(a_, b_)
                if a_.size != max(np.asarray(a).size, np.asarray(b).size):
                    raise ValueError
            except Exception:
                self.fail(sig + ':shape', 'shape %s vs %s %s' % (np.shape(a), np.shape(b), detail))
                return False
        with np.errstate(all='ignore'):
            tol = atol + rtol * np.maximum(np.abs(a_), np.abs(b_))
            bad = ~(np.abs(a_ - b_) <= tol)
            # identical infinities / both nan are not a disagreement of values
            bad &= ~((a_ == b_) | (np.isnan(a_) & np.isnan(b_)))
        if np.any(bad):
            self.fail(sig, 'got %r expected %r (rtol %g atol %g) %s' % (
                jsonable(a_), jsonable(b_), rtol, float(np.max(atol)), detail))
            return False
        return True


def exc_site(exc):
    """(innermost pmutt frame as 'module.func', True) or (None, False)."""
    tb = traceback.extract_tb(exc.__traceback__)
    site = None
    for fr in tb:
        fn = os.path.realpath(fr.filename)
        if fn.startswith(REPO_PKG) and os.sep + 'tests' + os.sep not in fn:
            mod = fn[len(REPO_PKG):].replace(os.sep, '.')
            if mod.endswith('.py'):
                mod = mod[:-3]
            site = '%s.%s' % (mod, fr.name)
    return site


def exc_sig(prefix, exc):
    site = exc_site(exc)
    return '%s/exc:%s@%s' % (prefix, type(exc).__name__, site or 'harness')


class Clause:
    def __init__(self, name, strategy, check, quick, thorough, rule,
                 examples=(), enumerate=None, budget_s=(150, 1500), quick_shards=1):
        self.name = name            # e.g. 'C17.history'
        self.strategy = strategy    # None for enumerated clauses
        self.check = check
        self.quick = quick          # examples in quick tier
        self.thorough = thorough    # examples per shard in thorough tier
        self.rule = rule            # text: generator + non-triviality rule
        self.examples = list(examples)
        self.enumerate = enumerate  # callable(tier) -> iterable of cases (finite, complete)
        self.quick_shards = quick_shards  # processes used by the quick tier (each runs `quick` cases)
        self.budget_s = budget_s    # wall-clock cap (quick, thorough); a hit is 'inconclusive', never a violation

    def evaluate(self, case):
        """Run check on one descriptor -> Ctx.  pMuTT exceptions become
        failures; exceptions raised by the harness itself propagate."""
        ctx = Ctx()
        with warnings.catch_warnings():
            warnings.simplefilter('ignore')
            try:
                self.check(case, ctx)
            except (_Violation, HarnessError, KeyboardInterrupt):
                raise
            except hypothesis.errors.HypothesisException:
                raise
            except RecursionError:
                raise
            except Exception as e:
                site = exc_site(e)
                if site is None:
                    raise HarnessError('%s: %s\n%s' % (
                        self.name, e, traceback.format_exc())) from e
                ctx.fail(exc_sig(self.name, e), '%s: %s' % (type(e).__name__, e))
        return ctx


class Recorder:
    def __init__(self):
        self.clauses = {}

    def _c(self, name):
        return self.clauses.setdefault(name, {
            'cases': 0, 'nontrivial_hashes': set(), 'labels': {},
            'excluded': {}, 'known_hits': {}, 'samples': [], 'hashes': set()})

    def record(self, name, case, ctx, known_sigs):
        c = self._c(name)
        c['cases'] += 1
        h = jhash(case)
        c['hashes'].add(h)
        if ctx.is_nontrivial:
            c['nontrivial_hashes'].add(h)
        for l in ctx.labels:
            c['labels'][l] = c['labels'].get(l, 0) + 1
        for r in ctx.excluded:
            c['excluded'][r] = c['excluded'].get(r, 0) + 1
        for s in known_sigs:
            c['known_hits'][s] = c['known_hits'].get(s, 0) + 1
        n = c['cases']
        # first, then a deterministic thinning sample (powers of two), and the
        # latest non-trivial case
        if n == 1 or (n & (n - 1)) == 0:
            if len(c['samples']) < 12:
                c['samples'].append(jsonable(case))
        if ctx.is_nontrivial:
            c['last_nontrivial'] = jsonable(case)

    def merge(self, other):
        for name, o in other.clauses.items():
            c = self._c(name)
            c['cases'] += o['cases']
            c['nontrivial_hashes'] |= o['nontrivial_hashes']
            c['hashes'] |= o['hashes']
            for k in ('labels', 'excluded', 'known_hits'):
                for l, v in o[k].items():
                    c[k][l] = c[k].get(l, 0) + v
            for s in o['samples']:
                if len(c['samples']) < 6:
                    c['samples'].append(s)
            if 'last_nontrivial' in o:
                c['last_nontrivial'] = o['last_nontrivial']


# ---------------------------------------------------------------------------
class Known:
    """known_findings.json: entries {property, clause, signature, status
    (known|fixed), what, where, witness, commit}.  Signatures are matched with
    fnmatch so an entry can cover one root cause seen through several getters,
    never a whole clause."""

    def __init__(self, pid, path=None):
        path = path or os.path.join(ROOT, 'known_findings.json')
        self.entries = []
        if os.path.exists(path):
            with open(path) as f:
                data = json.load(f)
            self.entries = [e for e in data.get('findings', [])
                            if e.get('property') == pid]
        self.known = [e for e in self.entries if e.get('status') == 'known']
        self.fixed = [e for e in self.entries if e.get('status') == 'fixed']
        self.hits = {id(e): 0 for e in self.known}

    def match(self, sig):
        for e in self.known:
            pats = e['signature'] if isinstance(e['signature'], list) else [e['signature']]
            for p in pats:
                if sig == p or fnmatch.fnmatchcase(sig, p):
                    return e
        return None


def derive_seed(base, *parts):
    s = '%s|%s' % (base, '|'.join(str(p) for p in parts))
    return int(hashlib.blake2b(s.encode(), digest_size=6).hexdigest(), 16)


def run_enumerated(clause, tier, shard, nshards, known, rec):
    found = {}
    for i, case in enumerate(clause.enumerate(tier)):
        if i % nshards != shard:
            continue
        ctx = clause.evaluate(case)
        ksigs = []
        for f in ctx.failures:
            e = known.match(f.sig)
            if e is not None:
                ksigs.append(e['signature'] if isinstance(e['signature'], str) else e['signature'][0])
                known.hits[id(e)] += 1
            elif f.sig not in found and len(found) < 12:
                found[f.sig] = (f.sig, jsonable(case), f.detail)
        rec.record(clause.name, case, ctx, sorted(set(ksigs)))
    return list(found.values())


def run_clause(clause, n_examples, seed, known, rec, max_sigs=6, shrink=True,
               deadline=None):
    """Generate n_examples cases; return list of (sig, case, detail) for every
    distinct unknown signature found (collect-then-shrink)."""
    found = []
    reported = set()
    attempt = -1
    retry_unshrunk = False
    while attempt + 1 < max_sigs or retry_unshrunk:
        if retry_unshrunk:
            retry_unshrunk = False
            shrink_now = False       # same seed again, without the shrink phase, to surface the original exception
        else:
            attempt += 1
            shrink_now = shrink
        state = {'target': None, 'case': None, 'detail': None, 'frozen': False}

        def body(case):
            if deadline is not None and not state['frozen'] and time.time() > deadline:
                c = rec._c(clause.name)
                c['excluded']['wall-clock budget reached (inconclusive, not evaluated)'] = \
                    c['excluded'].get('wall-clock budget reached (inconclusive, not evaluated)', 0) + 1
                return
            ctx = clause.evaluate(case)
            ksigs = []
            unknown = []
            for f in ctx.failures:
                e = known.match(f.sig)
                if e is not None:
                    ksigs.append(e['signature'] if isinstance(e['signature'], str) else e['signature'][0])
                    known.hits[id(e)] += 1
                elif f.sig not in reported:
                    unknown.append(f)
            if not state['frozen']:
                rec.record(clause.name, case, ctx, sorted(set(ksigs)))
            if unknown:
                if state['target'] is None:
                    state['target'] = unknown[0].sig
                    state['frozen'] = True
                hit = [f for f in unknown if f.sig == state['target']]
                if hit:
                    state['case'] = jsonable(case)
                    state['detail'] = hit[0].detail
                    raise _Violation(state['target'])

        phases = [Phase.explicit, Phase.generate] + ([Phase.shrink] if shrink_now else [])
        test = given(clause.strategy)(body)
        for ex in clause.examples:
            test = hypothesis.example(ex)(test)
        test = hypothesis.seed(derive_seed(seed, clause.name, attempt))(test)
        test = settings(max_examples=max(1, n_examples), database=None, deadline=None,
                        report_multiple_bugs=False, phases=phases,
                        suppress_health_check=[HealthCheck.too_slow,
                                               HealthCheck.data_too_large,
                                               HealthCheck.large_base_example],
                        print_blob=False)(test)
        try:
            test()
        except _Violation:
            found.append((state['target'], state['case'], state['detail']))
            reported.add(state['target'])
            continue
        except hypothesis.errors.FailedHealthCheck as e:
            raise HarnessError('%s: health check: %s' % (clause.name, e))
        except hypothesis.errors.Flaky as e:
            # a pMuTT-side nondeterminism would be a finding of its own; a
            # harness-side one is a harness bug.  Either way not silently green.
            if state['case'] is not None:
                found.append((state['target'], state['case'],
                              'flaky under replay: %s' % (state['detail'],)))
                reported.add(state['target'])
                continue
            subs = ''.join(''.join(traceback.format_exception(type(x), x, x.__traceback__))[-1500:]
                           for x in getattr(e, 'exceptions', []))
            raise HarnessError('%s: flaky: %s\n%s' % (clause.name, str(e)[-300:], subs))
        except Exception as e:
            # Hypothesis 6.168's shrinker can die inside itself (seen: minimize_duplicated_choices copying a string
            # between two text nodes with different alphabets -> ValueError in intervalsets).  A failing case is
            # already in hand then: report it un-minimised rather than losing it to exit 2.
            tb = e.__traceback__
            while tb is not None and tb.tb_next is not None:
                tb = tb.tb_next
            fn = tb.tb_frame.f_code.co_filename if tb is not None else ''
            if state['case'] is not None and os.sep + 'hypothesis' + os.sep in fn:
                found.append((state['target'], state['case'],
                              '%s (not minimised: Hypothesis shrinker error %s)' % (state['detail'], type(e).__name__)))
                reported.add(state['target'])
                continue
            if os.sep + 'hypothesis' + os.sep in fn and shrink_now:
                # the shrinker died while minimising an exception that came out of the check itself
                retry_unshrunk = True
                continue
            raise
        break
    return found


def replay_case(clause, case, known):
    """Plain regression run of one descriptor (no Hypothesis).  Returns
    (unknown failures, known entries hit)."""
    ctx = clause.evaluate(case)
    unknown, hit = [], []
    for f in ctx.failures:
        e = known.match(f.sig)
        if e is None:
            unknown.append(f)
        else:
            hit.append(e)
    return unknown, hit, ctx

"""C09 - kinetic parameters respect the reaction's thermodynamics."""
import math

import numpy as np
from hypothesis import strategies as st

from vf import gen
from vf.core import Clause
from vf.p08 import COEF, NAME_POOL

DESCRIPTORS = ['delta_H', 'rev_delta_H', 'reactants_H', 'products_H', 'delta_E', 'rev_delta_E', 'reactants_E',
               'products_E']


# ---------------------------------------------------------------------------
@st.composite
def clamp_case(draw):
    cls = draw(st.sampled_from(['ChemkinReaction', 'SurfaceReaction']))
    n = draw(st.integers(2, 5))
    names = draw(st.lists(st.sampled_from(NAME_POOL), min_size=n, max_size=n, unique=True))
    species = []
    for nm in names:
        d = draw(gen.nasa_desc(name=nm))
        d['phase'] = draw(st.sampled_from(['G', 'S']))
        # spread the enthalpy levels so that exo/endothermic, barrierless and high-barrier cases all occur
        shift = draw(st.sampled_from([0.0, 0.0, -2e4, 2e4, -5e3, 5e3, -1e5]))
        d['a_low'][5] += shift
        d['a_high'][5] += shift
        species.append(d)
    idx = st.integers(0, n - 1)
    intc = st.sampled_from([1.0, 1.0, 2.0, 3.0, 0.5])
    side = st.lists(st.tuples(idx, intc).map(list), min_size=1, max_size=3)
    ts = draw(st.one_of(st.none(), st.lists(st.tuples(idx, st.just(1.0)).map(list), min_size=1, max_size=2)))
    return {'cls': cls, 'species': species, 'react': draw(side), 'prod': draw(side), 'ts': ts,
            'T': draw(gen.logf(250, 1800)), 'P': draw(gen.logf(1e-2, 1e2)),
            'units': draw(st.sampled_from(['kcal/mol', 'J/mol', 'kJ/mol', 'eV', 'cal/mol']))}


def _mk(case, sp, clsname):
    from pmutt.reaction import Reaction, ChemkinReaction
    from pmutt.omkm.reaction import SurfaceReaction

    def side(items):
        return [sp[i] for i, _ in items], [c_ for _, c_ in items]
    r, rs = side(case['react'])
    p, ps = side(case['prod'])
    t, ts = side(case['ts']) if case['ts'] else (None, None)
    cls = {'Reaction': Reaction, 'ChemkinReaction': ChemkinReaction, 'SurfaceReaction': SurfaceReaction}[clsname]
    return cls(reactants=r, reactants_stoich=rs, products=p, products_stoich=ps, transition_state=t,
               transition_state_stoich=ts)


def check_clamp(case, ctx):
    from pmutt import constants as c
    sp = [gen.build_species(d) for d in case['species']]
    rxn = _mk(case, sp, case['cls'])
    plain = _mk(case, sp, 'Reaction')
    T, P, u = case['T'], case['P'], case['units']
    has_ts = case['ts'] is not None
    classes = set()
    for q in ('H', 'G'):
        for rev in (False, True):
            d_rxn = getattr(plain, 'get_delta_%soRT' % q)(rev=rev, act=False, T=T, P=P)
            d_act = getattr(plain, 'get_delta_%soRT' % q)(rev=rev, act=True, T=T, P=P) if has_ts else -math.inf
            expect = max(0.0, d_act, d_rxn)
            scale = abs(d_rxn) + (abs(d_act) if has_ts else 0) + 1
            got = getattr(rxn, 'get_%soRT_act' % q)(rev=rev, T=T, P=P)
            tag = 'C09.clamp/%s' % q
            which = 'zero' if expect == 0.0 else ('ts' if expect == d_act else 'rxn')
            classes.add('%s:%s' % ('rev' if rev else 'fwd', which))
            ctx.close(tag + 'oRT_act', got, expect, rtol=1e-12, atol=1e-12 * scale,
                      detail='rev=%s d_act=%r d_rxn=%r' % (rev, d_act, d_rxn))
            if not (got >= 0 and got >= d_rxn - 1e-12 * scale):
                ctx.fail(tag + 'oRT_act-below-thermodynamic-minimum', 'rev=%s got %r d_rxn %r' % (rev, got, d_rxn))
            dim = getattr(rxn, 'get_%s_act' % q)(units=u, T=T, rev=rev, P=P)
            ctx.close(tag + '_act(units)', dim, expect * T * c.R(u + '/K'), rtol=1e-12,
                      atol=1e-12 * scale * T * c.R(u + '/K'), detail='rev=%s units=%s' % (rev, u))
    # documented default pressure of the activation getters: 1 bar
    for q in ('H', 'G'):
        f = getattr(rxn, 'get_%s_act' % q)
        ctx.close('C09.clamp/default-P:%s' % q, f(units=u, T=T), f(units=u, T=T, P=1.0), rtol=0)
    for cl in sorted(classes):
        ctx.label(cl)
    ctx.label('ts' if has_ts else 'no-ts', 'cls:' + case['cls'])
    ctx.nontrivial(any(x.startswith('rev') for x in classes) and len({x.split(':')[1] for x in classes}) >= 2)


# ---------------------------------------------------------------------------
@st.composite
def bep_case(draw):
    n = draw(st.integers(2, 4))
    names = draw(st.lists(st.sampled_from(NAME_POOL), min_size=n, max_size=n, unique=True))
    species = []
    for nm in names:
        d = draw(gen.statmech_desc(name=nm, vib_kinds=('harmonic', 'harmonic', 'einstein'), allow_imag=False))
        if d['elec'] is None:
            d['elec'] = {'E': draw(st.floats(-20, 0)), 'spin': 0}
        else:
            d['elec']['E'] = draw(st.floats(-20, 0))      # eV: reaction energies of a few eV
        species.append(d)
    idx = st.integers(0, n - 1)
    side = st.lists(st.tuples(idx, st.sampled_from([1.0, 1.0, 2.0, 0.5])).map(list), min_size=1, max_size=3)
    return {'species': species, 'react': draw(side), 'prod': draw(side),
            'descriptor': draw(st.sampled_from(DESCRIPTORS)), 'slope': draw(st.floats(0, 1)),
            'intercept': draw(st.floats(0, 60)), 'T': draw(gen.logf(250, 1800)), 'P': draw(gen.logf(1e-2, 1e2)),
            'omkm': draw(st.booleans())}


def check_bep(case, ctx):
    from pmutt import constants as c
    from pmutt.reaction import Reaction
    sp = [gen.build_species(d) for d in case['species']]
    if case['omkm']:
        from pmutt.omkm.reaction import BEP
    else:
        from pmutt.reaction.bep import BEP
    bep = BEP(slope=case['slope'], intercept=case['intercept'], name='BEP_TS', descriptor=case['descriptor'])

    def side(items):
        return [sp[i] for i, _ in items], [c_ for _, c_ in items]
    r, rs = side(case['react'])
    p, ps = side(case['prod'])
    rxn = Reaction(reactants=r, reactants_stoich=rs, products=p, products_stoich=ps, transition_state=[bep],
                   transition_state_stoich=[1.0])
    T, P = case['T'], case['P']
    kw = {'T': T, 'P': P}
    RT = c.R('kcal/mol/K') * T
    d = case['descriptor']
    ctx.label('descriptor:' + d)
    dH = rxn.get_delta_H(units='kcal/mol', **kw)
    dE = rxn.get_delta_E(units='kcal/mol', **kw)
    ctx.nontrivial(abs(dH) > 1e-3)
    ctx.label('exothermic' if dH < 0 else 'endothermic')
    Ef = bep.get_E_act(units='kcal/mol', reaction=rxn, rev=False, **kw)
    Er = bep.get_E_act(units='kcal/mol', reaction=rxn, rev=True, **kw)
    scale = abs(Ef) + abs(Er) + abs(dH) + abs(dE) + abs(rxn.get_H_state(state='reactants', units='kcal/mol', **kw)) \
        + abs(rxn.get_H_state(state='products', units='kcal/mol', **kw))
    tol = 1e-9 * scale + 1e-9
    # reference value of the relation itself
    desc_val = {'delta_H': dH, 'rev_delta_H': -dH, 'delta_E': dE, 'rev_delta_E': -dE,
                'reactants_H': rxn.get_H_state(state='reactants', units='kcal/mol', **kw),
                'products_H': rxn.get_H_state(state='products', units='kcal/mol', **kw),
                'reactants_E': rxn.get_E_state(state='reactants', units='kcal/mol', **kw),
                'products_E': rxn.get_E_state(state='products', units='kcal/mol', **kw)}[d]
    a, b = case['slope'], case['intercept']
    if d.startswith('rev_delta'):
        ef_ref, er_ref = (a - 1.0) * desc_val + b, a * desc_val + b
    else:
        ef_ref, er_ref = a * desc_val + b, (a - 1.0) * desc_val + b
    ctx.close('C09.bep/E_act:fwd', Ef, ef_ref, rtol=0, atol=tol, detail=d)
    ctx.close('C09.bep/E_act:rev', Er, er_ref, rtol=0, atol=tol, detail=d)
    if 'delta' in d:
        ctx.close('C09.bep/fwd-rev=delta:%s' % d, Ef - Er, dH if d.endswith('H') else dE, rtol=0, atol=tol)
    # same barrier through the reaction's transition-state enthalpy
    ctx.close('C09.bep/H_act-through-TS:fwd', rxn.get_delta_H(units='kcal/mol', act=True, rev=False, **kw), Ef,
              rtol=0, atol=tol, detail=d)
    ctx.close('C09.bep/H_act-getter:fwd', rxn.get_H_act(units='kcal/mol', rev=False, **kw), Ef, rtol=0, atol=tol)
    if d in ('delta_H', 'rev_delta_H'):
        ctx.close('C09.bep/H_act-through-TS:rev', rxn.get_delta_H(units='kcal/mol', act=True, rev=True, **kw), Er,
                  rtol=0, atol=tol, detail=d)
    # dimensionless form
    # the same barrier in other energy units (factors from pmutt.constants, which C12 judges)
    from pmutt import constants as c_
    for u_ in ('kJ/mol', 'J/mol', 'cal/mol', 'eV/molecule'):
        f_ = c_.convert_unit(initial='kcal/mol', final=u_)
        for rev_, E_ in ((False, Ef), (True, Er)):
            ctx.close('C09.bep/E_act-units:%s' % u_, bep.get_E_act(units=u_, reaction=rxn, rev=rev_, **kw), E_ * f_, rtol=1e-9,
                      atol=tol * f_, detail='rev=%s' % rev_)
    ctx.close('C09.bep/EoRT_act', bep.get_EoRT_act(reaction=rxn, rev=False, **kw) * RT, Ef, rtol=0, atol=tol)
    ctx.close('C09.bep/EoRT_act:rev', bep.get_EoRT_act(reaction=rxn, rev=True, **kw) * RT, Er, rtol=0, atol=tol)
    # internal energy and enthalpy offsets use the same (forward) barrier
    Hoff = (bep.get_HoRT(reaction=rxn, **kw) - rxn.get_HoRT_state(state='reactants', **kw)) * RT
    Uoff = (bep.get_UoRT(reaction=rxn, **kw) - rxn.get_UoRT_state(state='reactants', **kw)) * RT
    ctx.close('C09.bep/H-offset=barrier', Hoff, Ef, rtol=0, atol=tol, detail=d)
    ctx.close('C09.bep/U-offset=H-offset', Uoff, Hoff, rtol=0, atol=tol, detail=d)
    # BEP adds no entropy of its own: S(TS) = S(reactants); G = H - TS
    ctx.close('C09.bep/S=S_reactants', bep.get_SoR(reaction=rxn, **kw), rxn.get_SoR_state(state='reactants', **kw),
              rtol=1e-12)
    # the entropy option: None switches the entropy off, 'products' borrows it from the products
    if bep.get_SoR(reaction=rxn, entropy_state=None, **kw) != 0:
        ctx.fail('C09.bep/entropy_state-None', repr(bep.get_SoR(reaction=rxn, entropy_state=None, **kw)))
    ctx.close('C09.bep/entropy_state-products', bep.get_SoR(reaction=rxn, entropy_state='products', **kw),
              rxn.get_SoR_state(state='products', **kw), rtol=1e-12)
    ctx.close('C09.bep/G(entropy_state=None)=H', bep.get_GoRT(reaction=rxn, entropy_state=None, **kw),
              bep.get_HoRT(reaction=rxn, **kw), rtol=1e-12, atol=1e-12 * scale / RT)
    ctx.close('C09.bep/G=H-TS', bep.get_GoRT(reaction=rxn, **kw),
              bep.get_HoRT(reaction=rxn, **kw) - bep.get_SoR(reaction=rxn, **kw), rtol=1e-12,
              atol=1e-12 * scale / RT)
    # one BEP object serves several reactions: a second reaction (the mirror image, other coefficients) evaluated
    # afterwards with the same object gets its own barrier, and the first one is unchanged when asked again
    rxn2 = Reaction(reactants=p, reactants_stoich=[2.0 * x_ for x_ in ps], products=r, products_stoich=[2.0 * x_ for x_ in rs],
                    transition_state=[bep], transition_state_stoich=[1.0])
    fresh = BEP(slope=case['slope'], intercept=case['intercept'], name='BEP_TS', descriptor=case['descriptor'])
    rxn2f = Reaction(reactants=p, reactants_stoich=[2.0 * x_ for x_ in ps], products=r, products_stoich=[2.0 * x_ for x_ in rs],
                     transition_state=[fresh], transition_state_stoich=[1.0])
    for rev_ in (False, True):
        ctx.close('C09.bep/shared-object:second-reaction', bep.get_E_act(units='kcal/mol', reaction=rxn2, rev=rev_, **kw),
                  fresh.get_E_act(units='kcal/mol', reaction=rxn2f, rev=rev_, **kw), rtol=0, atol=2 * tol, detail='rev=%s %s' % (rev_, d))
    ctx.close('C09.bep/shared-object:first-again', bep.get_E_act(units='kcal/mol', reaction=rxn, rev=False, **kw), Ef,
              rtol=0, atol=tol, detail=d)
    ctx.close('C09.bep/shared-object:H_act-through-TS', rxn2.get_delta_H(units='kcal/mol', act=True, rev=False, **kw),
              fresh.get_E_act(units='kcal/mol', reaction=rxn2f, rev=False, **kw), rtol=0, atol=2 * tol, detail=d)


# ---------------------------------------------------------------------------
@st.composite
def A_case(draw):
    kind = draw(st.sampled_from(['entropy', 'entropy', 'chemkin', 'chemkin', 'omkm', 'omkm']))
    case = {'kind': kind, 'T': draw(gen.logf(250, 1800)), 'P': draw(gen.logf(1e-2, 1e2))}
    if kind == 'entropy':
        n = draw(st.integers(2, 4))
        names = draw(st.lists(st.sampled_from(NAME_POOL), min_size=n, max_size=n, unique=True))
        case['species'] = [draw(gen.species_desc(name=nm, classes=('StatMech', 'Nasa', 'Shomate'))) for nm in names]
        idx = st.integers(0, n - 1)
        side = st.lists(st.tuples(idx, COEF).map(list), min_size=1, max_size=3)
        case.update({'react': draw(side), 'prod': draw(side),
                     'ts': draw(st.lists(st.tuples(idx, st.just(1.0)).map(list), min_size=1, max_size=2)),
                     'm': draw(st.one_of(st.none(), st.integers(0, 3), st.floats(0, 3))),
                     'rev': draw(st.booleans())})
        return case
    # site-density scaling without a transition state
    nsurf = draw(st.integers(0, 3))
    ngas = draw(st.integers(0 if nsurf else 1, 2))
    sites = [draw(gen.logf(1e-11, 1e-8)) for _ in range(draw(st.integers(1, 2)))]
    reactants = []
    for k in range(nsurf):
        reactants.append({'phase': 'S', 'site': draw(st.integers(0, len(sites) - 1)),
                          'stoich': draw(st.sampled_from([1, 1, 2]))})
    for k in range(ngas):
        reactants.append({'phase': 'G', 'site': None, 'stoich': 1})
    case.update({'sites': sites, 'reactants': reactants, 'bulk_reactant': draw(st.booleans()),
                 'scale': draw(gen.logf(0.1, 10.0)), 'op': draw(st.sampled_from(['sum', 'min', 'max', 'mean'])),
                 'units': draw(st.sampled_from(['molec/cm2', 'mol/cm2', 'mol/m2', 'molec/m2'])),
                 'with_ts': draw(st.booleans()), 'ts_dS': draw(st.floats(-5, 5))})
    return case


def _const_nasa(name, phase, dS=0.0, **kw):
    from pmutt.empirical.nasa import Nasa
    a = [4.0, 0.0, 0.0, 0.0, 0.0, -1000.0, 5.0 + dS]
    return Nasa(name=name, T_low=100., T_mid=1000., T_high=5000., a_low=a, a_high=a, phase=phase, **kw)


OMKM_UNITS = ['molec/cm2', 'mol/cm2', 'mol/m2', 'molec/m2']


def check_A(case, ctx):
    from pmutt import constants as c
    T, P = case['T'], case['P']
    kBh = c.kb('J/K') / c.h('J s')
    if case['kind'] == 'entropy':
        sp = [gen.build_species(d) for d in case['species']]
        rxn = _mk(case, sp, 'Reaction')
        rev, m = case['rev'], case['m']
        ctx.nontrivial(True)
        ctx.label('entropy-route')
        A = rxn.get_A(T=T, P=P, rev=rev, m=m, use_q=False)
        dS = rxn.get_delta_SoR(rev=rev, act=True, T=T, P=P)
        if m is None:
            m_ref = sum(c_ for _, c_ in (case['prod'] if rev else case['react']))
        else:
            m_ref = m
        if abs(dS + m_ref) < 600:
            if not (A > 0 and math.isfinite(A)):
                ctx.fail('C09.A/not-positive', 'A=%r' % A)
            else:
                ctx.close('C09.A/entropy-route', math.log(A), math.log(kBh * T) + dS + m_ref, rtol=1e-12, atol=1e-10,
                          detail='rev=%s m=%r' % (rev, m))
        # partition-function route is positive and equals (kB T/h) q_TS/q_IS e^m where q is defined
        try:
            Aq = rxn.get_A(T=T, P=P, rev=rev, m=m, use_q=True)
            dq = rxn.get_delta_q(rev=rev, act=True, T=T, P=P, ignore_q_elec=True, include_ZPE=False)
        except NotImplementedError:
            ctx.label('q-not-implemented')
            return
        if dq > 0 and math.isfinite(dq) and math.isfinite(Aq):
            if not Aq > 0:
                ctx.fail('C09.A/not-positive', 'A(q)=%r' % Aq)
            else:
                ctx.close('C09.A/q-route', math.log(Aq), math.log(kBh * T) + math.log(dq) + m_ref, rtol=1e-12,
                          atol=1e-10)
        return
    # --- site density scaling -------------------------------------------------
    s = case['scale']
    op = case['op']
    nsurf = sum(r['stoich'] for r in case['reactants'] if r['phase'] == 'S')

    def build(factor):
        if case['kind'] == 'chemkin':
            from pmutt.chemkin import CatSite
            from pmutt.reaction import ChemkinReaction
            sites = [CatSite(name='SITE%d' % k, site_density=sd * factor, density=12.0, bulk_specie='BULK%d(B)' % k)
                     for k, sd in enumerate(case['sites'])]
            reactants, stoich = [], []
            for k, r in enumerate(case['reactants']):
                if r['phase'] == 'S':
                    reactants.append(_const_nasa('ADS%d(S)' % k, 'S', cat_site=sites[r['site']], n_sites=1))
                else:
                    reactants.append(_const_nasa('GAS%d' % k, 'G'))
                stoich.append(float(r['stoich']))
            if case['bulk_reactant'] and nsurf > 0:
                # (a reaction of gas and bulk species only is not in the generated domain)
                reactants.append(_const_nasa('BULK0(B)', 'S', cat_site=sites[0]))
                stoich.append(1.0)
            prod = [_const_nasa('PROD(S)', 'S', cat_site=sites[0], n_sites=1)]
            tsp = [_const_nasa('TS(S)', 'S', dS=case.get('ts_dS', 0.0), cat_site=sites[0], n_sites=1)] if case['with_ts'] else None
            return ChemkinReaction(reactants=reactants, reactants_stoich=stoich, products=prod, products_stoich=[1.0],
                                   transition_state=tsp, transition_state_stoich=[1.0] if tsp else None)
        from pmutt.omkm.phase import InteractingInterface, IdealGas
        from pmutt.omkm.reaction import SurfaceReaction
        ifaces = [InteractingInterface(name='surf%d' % k, species=[], site_density=sd * factor)
                  for k, sd in enumerate(case['sites'])]
        gasph = IdealGas(name='gas', species=[])
        reactants, stoich = [], []
        for k, r in enumerate(case['reactants']):
            # phases are attached after construction, as pmutt.omkm.organize_phases does
            spx = _const_nasa(('ADS%d(S)' if r['phase'] == 'S' else 'GAS%d') % k, None)
            spx.phase = ifaces[r['site']] if r['phase'] == 'S' else gasph
            reactants.append(spx)
            stoich.append(float(r['stoich']))
        prod = [_const_nasa('PROD(S)', None)]
        prod[0].phase = ifaces[0]
        tsp = None
        if case['with_ts']:
            tsp = [_const_nasa('TS(S)', None, dS=case.get('ts_dS', 0.0))]
            tsp[0].phase = ifaces[0]
        return SurfaceReaction(reactants=reactants, reactants_stoich=stoich, products=prod, products_stoich=[1.0],
                               transition_state=tsp, transition_state_stoich=[1.0] if tsp else None)
    kw = {'sden_operation': op, 'T': T}
    if case['kind'] == 'omkm':
        kw['units'] = case['units']
        if nsurf == 0:
            # no reactant carries a site density: documented ValueError
            try:
                build(1.0).get_A(**kw)
            except ValueError:
                ctx.label('omkm-no-site-refused')
                return
            ctx.fail('C09.A/no-site-accepted', 'SurfaceReaction.get_A without any surface reactant returned a value')
            return
    r1, rs = build(1.0), build(s)
    ctx.label('kind:' + case['kind'], 'n_surf:%d' % nsurf, 'op:' + op)
    ctx.nontrivial(nsurf >= 2)
    if case['kind'] == 'chemkin' and nsurf == 0:
        # pure gas reaction: no site density enters
        A1 = r1.get_A(**kw)
        if not case['with_ts']:
            ctx.close('C09.A/kB-over-h', A1, kBh, rtol=1e-12)
        return
    A1 = r1.get_A(**kw)
    As = rs.get_A(**kw)
    if not (A1 > 0 and As > 0):
        ctx.fail('C09.A/not-positive', 'A=%r, %r' % (A1, As))
        return
    ctx.close('C09.A/site-density-scaling', math.log(As / A1), (1 - nsurf) * math.log(s), rtol=1e-10, atol=1e-10,
              detail='n_surf=%r op=%s kind=%s' % (nsurf, op, case['kind']))
    # absolute value without a transition state: (kB/h) / sigma_eff^(n_surf - 1)
    dens = []
    for r in case['reactants']:
        if r['phase'] == 'S':
            dens += [case['sites'][r['site']]] * int(r['stoich'])
    eff = getattr(np, op)(dens)
    if case['kind'] == 'omkm':
        q, a = case['units'].split('/')
        eff = eff * c.convert_unit(initial='mol', final=q) / c.convert_unit(initial='cm2', final=a)
    if case['kind'] == 'omkm':
        # a Units object says the same as the unit string (documented alternative form of the argument)
        from pmutt.omkm.units import Units
        q_, a_ = case['units'].split('/')
        for U_ in (Units(length=a_[:-1], quantity=q_), Units(length=a_[:-1], quantity=q_, time='min', mass='g')):
            ctx.close('C09.A/Units-object=string', math.log(r1.get_A(**dict(kw, units=U_))), math.log(A1), rtol=1e-13,
                      atol=1e-12, detail='units=%s n_surf=%r' % (case['units'], nsurf))
    if not case['with_ts']:
        ctx.close('C09.A/no-TS-value', math.log(A1), math.log(kBh) - (nsurf - 1) * math.log(eff), rtol=1e-12,
                  atol=1e-10, detail='n_surf=%r op=%s' % (nsurf, op))
    else:
        # constant species: delta S(act) = 0, so the same value is expected with a TS (A/T convention)
        # default route: species without a partition function count with q = 1 (pmutt._ModelBase.get_q), so the value
        # without activation entropy is expected (A/T convention)
        ctx.close('C09.A/TS-value', math.log(A1), math.log(kBh) - (nsurf - 1) * math.log(eff), rtol=1e-12,
                  atol=1e-9, detail='n_surf=%r op=%s' % (nsurf, op))
        # entropy route through the same getter: (kB/h) exp(dS_act/R) / sigma^(n-1), and kB/h / sigma^(n-1) when the
        # entropy is switched off
        dS_act = float(r1.transition_state[0].get_SoR(T=T)) - sum(
            st_ * float(sp_.get_SoR(T=T)) for sp_, st_ in zip(r1.reactants, r1.reactants_stoich))
        ctx.close('C09.A/TS-entropy-route', math.log(r1.get_A(use_q=False, **kw)),
                  math.log(kBh) + dS_act - (nsurf - 1) * math.log(eff), rtol=1e-12, atol=1e-9 * (1 + abs(dS_act)),
                  detail='n_surf=%r op=%s dS_act=%r' % (nsurf, op, dS_act))
        ctx.close('C09.A/TS-entropy-off', math.log(r1.get_A(use_q=False, include_entropy=False, **kw)),
                  math.log(kBh) - (nsurf - 1) * math.log(eff), rtol=1e-12, atol=1e-9, detail='n_surf=%r op=%s' % (nsurf, op))
    # the same object asked again under every other operation / unit system (no value sticks to the object)
    for op2 in ('sum', 'min', 'max', 'mean'):
        for u2 in (OMKM_UNITS if case['kind'] == 'omkm' else [None]):
            kw2 = dict(kw, sden_operation=op2)
            eff2 = getattr(np, op2)(dens)
            if u2 is not None:
                kw2['units'] = u2
                q, a = u2.split('/')
                eff2 = eff2 * c.convert_unit(initial='mol', final=q) / c.convert_unit(initial='cm2', final=a)
            ctx.close('C09.A/repeat-on-same-object', math.log(r1.get_A(**kw2)), math.log(kBh) - (nsurf - 1) * math.log(eff2),
                      rtol=1e-12, atol=1e-9, detail='after op=%s: n_surf=%r op=%s units=%s' % (op, nsurf, op2, u2))
    ctx.close('C09.A/repeat-on-same-object', r1.get_A(**kw), A1, rtol=1e-14, detail='original arguments again')


CLAUSES = [
    Clause('C09.clamp', clamp_case(), check_clamp, 400, 4000,
           'ChemkinReaction / SurfaceReaction over 2-5 Nasa species with shifted enthalpy levels (exo/endothermic, barrierless, '
           'high barrier), optional 1-2 species TS, both directions, five unit strings: H and G activation values (dimensionless and '
           'with units) = max(0, TS barrier, reaction change) recomputed from a plain Reaction. Non-trivial = a reverse-direction '
           'evaluation and at least two different winning branches in one case', quick_shards=3),
    Clause('C09.bep', bep_case(), check_bep, 300, 3000,
           'StatMech reactants/products (electronic energy -20..0 eV, harmonic/Einstein vibrations), BEP (reaction.bep and omkm) '
           'with each of the 8 descriptors, slope 0-1, intercept 0-60 kcal/mol as transition state: E_act fwd/rev vs the relation '
           'typed in the harness, fwd-rev = dH (dE), same barrier through the TS enthalpy, U and H offsets use the same barrier. '
           'Non-trivial = |dH| > 1e-3 kcal/mol', quick_shards=3),
    Clause('C09.A', A_case(), check_A, 400, 4000,
           'entropy route on mixed-class reactions with TS (m given or None, both directions); site-density scaling on '
           'ChemkinReaction (CatSite) and SurfaceReaction (InteractingInterface) with 0-3 surface reactants on 1-2 sites, bulk '
           'reactant, sum/min/max/mean, four unit systems, with and without TS: A>0, A(s*sigma)=A(sigma)*s^(1-n), value kB/h / '
           'sigma^(n-1); the same object re-asked under every operation and unit system. Non-trivial = n_surf >= 2 or the entropy route', quick_shards=2),
]
ASSUMPTIONS = ['kB, h, R and unit factors from pmutt.constants (C12)', 'BEP relations compared in kcal/mol (the unit of the intercept)']

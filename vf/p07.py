"""C07 - OpenMKM YAML / Cantera CTI input files transcribe the model faithfully."""
import ast
import math
import re

import numpy as np
from hypothesis import strategies as st

from vf import gen
from vf.core import Clause, exc_site
from vf.p18 import decode as decode_range

ELEMS = ['H', 'N', 'O', 'C']
UNIT_CHOICES = {'length': ['cm', 'm'], 'quantity': ['molec', 'mol'], 'act_energy': ['cal/mol', 'kcal/mol', 'J/mol', 'kJ/mol'],
                'energy': ['cal', 'kcal', 'J'], 'pressure': ['bar', 'atm', 'Pa'], 'mass': ['kg', 'g'], 'time': ['s', 'min']}


# =============================================================================
# 1. phase objects under species additions and removals
@st.composite
def phase_history(draw):
    nph = draw(st.integers(1, 4))
    phases = [{'kind': draw(st.sampled_from(['gas', 'solid', 'iface', 'iface'])),
               'default': draw(st.booleans()), 'initial': draw(st.lists(st.integers(0, 7), max_size=3, unique=True))}
              for _ in range(nph)]
    ops = []
    for _ in range(draw(st.integers(0, 12))):
        op = draw(st.sampled_from(['append', 'append', 'extend', 'remove', 'pop', 'clear', 'new', 'assign']))
        ops.append({'op': op, 'phase': draw(st.integers(0, 7)), 'sp': draw(st.lists(st.integers(0, 7), min_size=1, max_size=3, unique=True)),
                    'j': draw(st.integers(0, 7)), 'kind': draw(st.sampled_from(['gas', 'solid', 'iface']))})
    return {'phases': phases, 'ops': ops}


def _mk_species(i):
    from pmutt.empirical.nasa import Nasa
    a = [4.0, 1e-3, 0, 0, 0, -1000.0 * (i + 1), 5.0]
    el = {ELEMS[i % 4]: 1 + i % 3}
    if i % 2:
        el[ELEMS[(i + 1) % 4]] = 1
    return Nasa(name='SP%d' % i, T_low=200., T_mid=1000., T_high=3000., a_low=a, a_high=a, elements=el, phase=None)


def _mk_phase(kind, k, default, species):
    from pmutt.omkm.phase import IdealGas, StoichSolid, InteractingInterface
    name = '%s%d' % (kind, k)
    if kind == 'gas':
        return IdealGas(name=name) if default else IdealGas(name=name, species=list(species))
    if kind == 'solid':
        return StoichSolid(name=name, density=12.4) if default else StoichSolid(name=name, species=list(species), density=12.4)
    return InteractingInterface(name=name, site_density=2e-9) if default else \
        InteractingInterface(name=name, species=list(species), site_density=2e-9)


def check_phases(case, ctx):
    pool = [_mk_species(i) for i in range(8)]
    phases, model = [], []
    for k, pd in enumerate(case['phases']):
        init = [] if pd['default'] else [pool[i] for i in pd['initial']]
        phases.append(_mk_phase(pd['kind'], k, pd['default'], init))
        model.append([s.name for s in init])
    n_removed = 0

    def verify(step):
        for k, (ph, want) in enumerate(zip(phases, model)):
            got = list(ph.species_names)
            if got != want:
                ctx.fail('C07.phases/species-differ-from-history', 'step %s phase %d (%s): has %r, history says %r' % (
                    step, k, ph.name, got, want))
                return False
            want_el = set()
            for s in pool:
                if s.name in want:
                    want_el |= set(s.elements)
            if set(ph.elements) != want_el:
                ctx.fail('C07.phases/elements', 'step %s phase %d: %r vs %r' % (step, k, sorted(ph.elements), sorted(want_el)))
                return False
            # every member carries a phase back-reference (the rate expressions read the site density through it); a species
            # that went through several phases keeps the last one it was given, so only "none at all" is judged
            for sp_ in ph.species:
                if getattr(sp_, 'phase', None) is None:
                    ctx.fail('C07.phases/member-without-back-reference', 'step %s: %s is listed by %s but has no phase attribute' % (
                        step, sp_.name, ph.name))
                    return False
        return True
    if not verify('construction'):
        return
    for step, op in enumerate(case['ops']):
        kind = op['op']
        if kind == 'new':
            phases.append(_mk_phase(op['kind'], len(phases), True, []))
            model.append([])
        else:
            k = op['phase'] % len(phases)
            ph, m = phases[k], model[k]
            sp = [pool[i] for i in op['sp']]
            if kind == 'append':
                ph.append_species(sp[0])
                m.append(sp[0].name)
            elif kind == 'extend':
                ph.extend_species(list(sp))
                m.extend(s.name for s in sp)
            elif kind == 'assign':
                ph.species = list(sp)
                m[:] = [s.name for s in sp]
            elif kind == 'remove' and m:
                nm = m[op['j'] % len(m)]
                ph.remove_species(nm)
                m.pop(m.index(nm))
                n_removed += 1
            elif kind == 'pop' and m:
                j = op['j'] % len(m)
                ph.pop_species(j)
                m.pop(j)
                n_removed += 1
            elif kind == 'clear':
                ph.clear_species()
                m.clear()
        if not verify(step):
            return
    ctx.nontrivial(len(phases) >= 2 and n_removed >= 1)
    ctx.label('phases:%d' % len(phases))
    if any(p['default'] for p in case['phases']):
        ctx.label('default-constructed')
    # the written phase entries list exactly the history's species
    from pmutt.omkm.units import Units
    import yaml
    from pmutt.io.omkm import write_thermo_yaml
    live = [ph for ph, m in zip(phases, model) if m]
    if live:
        for ph in live:
            if getattr(ph, 'phases', 'x') is None:
                ph.phases = []
        txt = write_thermo_yaml(phases=live, units=Units())
        doc = yaml.safe_load(txt)
        for ph, ent in zip(live, doc['phases']):
            if ent['species'] != list(ph.species_names) or sorted(ent['elements']) != sorted(ph.elements):
                ctx.fail('C07.phases/written-entry', '%s: file %r / %r' % (ph.name, ent['species'], ent['elements']))


# =============================================================================
# 2. reactor YAML
DIM_OPTS = {'V': ('reactor', 'volume', '{length}3'), 'A': ('reactor', 'area', '{length}2'), 'L': ('reactor', 'length', '{length}'),
            'cat_abyv': ('reactor', 'cat_abyv', '/{length}'), 'P': ('reactor', 'pressure', '{pressure}'),
            'flow_rate': ('inlet_gas', 'flow_rate', '{length}3/{time}'), 'residence_time': ('inlet_gas', 'residence_time', '{time}'),
            'mass_flow_rate': ('inlet_gas', 'mass_flow_rate', '{mass}/{time}'), 'end_time': ('simulation', 'end_time', '{time}')}
PLAIN_OPTS = {'reactor_type': ('reactor', 'type', ['pfr', 'cstr', 'batch', 'pfr_0d']),
              'temperature_mode': ('reactor', 'temperature_mode', ['isothermal', 'adiabatic']),
              'pressure_mode': ('reactor', 'pressure_mode', ['isobaric', 'isochoric']),
              'nodes': ('reactor', 'nodes', None), 'T': ('reactor', 'temperature', None),
              'atol': ('simulation/solver', 'atol', None), 'rtol': ('simulation/solver', 'rtol', None),
              'transient': ('simulation', 'transient', [True, False]), 'stepping': ('simulation', 'stepping', ['logarithmic', 'regular']),
              'init_step': ('simulation', 'init_step', None), 'step_size': ('simulation', 'step_size', None),
              'output_format': ('simulation', 'output_format', ['CSV', 'DAT']), 'full_SA': ('simulation/sensitivity', 'full', [True, False])}
STR_UNITS = {'V': 'm3', 'A': 'cm2', 'L': 'cm', 'cat_abyv': '/cm', 'P': 'atm', 'flow_rate': 'cm3/s', 'residence_time': 's',
             'mass_flow_rate': 'kg/s', 'end_time': 's'}


@st.composite
def reactor_case(draw):
    units = draw(st.one_of(st.none(), st.fixed_dictionaries({k: st.sampled_from(v) for k, v in UNIT_CHOICES.items()})))
    opts = {}
    for name in DIM_OPTS:
        form = draw(st.sampled_from(['omit', 'omit', 'float', 'int', 'np.float64', 'np.float32', 'np.int64', 'str']))
        if form == 'omit':
            continue
        val = draw(st.integers(1, 500)) if form in ('int', 'np.int64') else draw(st.floats(0.5, 500).map(lambda v: round(v, 3)))
        if form != 'str' and draw(st.integers(0, 9)) == 0:
            val = 0 if form in ('int', 'np.int64') else 0.0       # zero is a value too (batch reactor: no flow)
        opts[name] = {'form': form, 'value': val}
    for name, (_, _, choices) in PLAIN_OPTS.items():
        if draw(st.integers(0, 2)) == 0:
            continue
        if choices is not None:
            opts[name] = {'form': 'plain', 'value': draw(st.sampled_from(choices))}
        else:
            form = draw(st.sampled_from(['float', 'int', 'np.float64', 'np.int64']))
            val = draw(st.integers(1, 900)) if form in ('int', 'np.int64') else draw(st.floats(1e-9, 900))
            opts[name] = {'form': form, 'value': val}
    multi = {}
    if draw(st.booleans()):
        multi['multi_T'] = [draw(st.floats(300, 900)) for _ in range(draw(st.integers(1, 3)))]
    if draw(st.integers(0, 3)) == 0:
        multi['multi_P'] = [draw(st.floats(0.5, 5)) for _ in range(draw(st.integers(1, 3)))]
    if draw(st.integers(0, 3)) == 0:
        multi['multi_flow_rate'] = [draw(st.floats(0.5, 50)) for _ in range(draw(st.integers(1, 3)))]
    return {'units': units, 'opts': opts, 'multi': multi, 'with_phases': draw(st.sampled_from(['list', 'list', 'none', 'dict'])),
            'misc': draw(st.booleans())}


def _pyval(o):
    f, v = o['form'], o['value']
    return {'float': float, 'int': int, 'np.float64': np.float64, 'np.float32': np.float32, 'np.int64': np.int64,
            'plain': lambda x: x, 'str': None}[f](v) if f != 'str' else None


def check_reactor(case, ctx):
    import yaml
    from pmutt.io.omkm import write_yaml
    from pmutt.omkm.phase import IdealGas, InteractingInterface
    from pmutt.omkm.units import Units
    units = None if case['units'] is None else Units(**case['units'])
    udict = case['units'] or {'length': 'm', 'time': 's', 'quantity': 'kmol', 'energy': 'J', 'act_energy': 'J/kmol',
                              'pressure': 'Pa', 'mass': 'kg'}      # SI when units is None (documented)
    kwargs = {}
    for name, o in case['opts'].items():
        if o['form'] == 'str':
            kwargs[name] = '%s %s' % (o['value'], STR_UNITS[name])
        else:
            kwargs[name] = _pyval(o)
    kwargs.update(case['multi'])
    if case['with_phases'] == 'list':
        sp = _mk_species(0)
        kwargs['phases'] = [IdealGas(name='gas', species=[sp], initial_state={'SP0': 1.0}),
                            InteractingInterface(name='terrace', species=[_mk_species(1)], site_density=2e-9,
                                                 initial_state={'SP1': 1.0})]
    elif case['with_phases'] == 'dict':
        kwargs['phases'] = {'gas': {'name': 'gas', 'initial_state': '"SP0:1.0"'}}
    forms = {o['form'] for o in case['opts'].values()}
    ctx.nontrivial(any(f.startswith('np.') for f in forms) and 'str' in forms)
    ctx.label('units:%s' % ('given' if units else 'none'), 'phases:' + case['with_phases'])
    for f in sorted(forms):
        ctx.label('form:' + f)
    misc = {'my_section': {'answer': 42}} if case.get('misc') else None
    if misc is not None:
        kwargs['misc'] = misc
    try:
        txt = write_yaml(units=units, **kwargs)
    except Exception as e:
        if exc_site(e) is None:
            raise
        why = 'no-phases' if case['with_phases'] == 'none' else ('units-none' if units is None else 'other')
        ctx.fail('C07.reactor/raises:%s:%s' % (type(e).__name__, why), '%s (options %r)' % (e, sorted(kwargs)))
        return
    try:
        doc = yaml.safe_load(txt)
    except yaml.YAMLError as e:
        bad = sorted({o['form'] for n_, o in case['opts'].items() if o['form'].startswith('np.')})
        ctx.fail('C07.reactor/yaml-does-not-load:%s' % ','.join(bad), str(e)[:200])
        return
    doc = doc or {}

    def lookup(path, key):
        d = doc
        for p in path.split('/'):
            d = (d or {}).get(p)
        return (d or {}).get(key, '<absent>') if isinstance(d, dict) else '<absent>'
    for name, (sec, key, utpl) in DIM_OPTS.items():
        got = lookup(sec, key)
        if name not in case['opts']:
            if 'multi_' + name in case['multi']:
                # the first value of the sweep doubles as the base case
                w0 = case['multi']['multi_' + name][0]
                m = re.match(r'^\s*"?([-+0-9.eE]+)\s*([^"]*)?"?\s*$', str(got))
                unit0 = utpl.format(**udict) if units is not None else ''
                if not m or abs(float(m.group(1)) - w0) > 1e-6 * abs(w0) or (m.group(2) or '').replace(' ', '') != unit0.replace(' ', ''):
                    ctx.fail('C07.reactor/base-case-from-sweep:%s' % name, 'sweep %r, base entry %r (expected "%s %s")' % (
                        case['multi']['multi_' + name], got, w0, unit0))
                continue
            if got != '<absent>':
                ctx.fail('C07.reactor/key-for-omitted-option:%s' % name, repr(got))
            continue
        o = case['opts'][name]
        if got == '<absent>':
            ctx.fail('C07.reactor/supplied-option-missing:%s' % o['form'], '%s=%r (units %s) not in the file' % (
                name, kwargs[name], 'given' if units else 'None'))
            continue
        unit = STR_UNITS[name] if o['form'] == 'str' else (utpl.format(**udict) if units is not None else '')
        m = re.match(r'^\s*"?([-+0-9.eE]+)\s*([^"]*)?"?\s*$', str(got))
        if not m or abs(float(m.group(1)) - float(o['value'])) > 1e-6 * abs(float(o['value'])) or \
                (m.group(2) or '').replace(' ', '') != unit.replace(' ', ''):
            ctx.fail('C07.reactor/value-or-unit:%s' % o['form'], '%s: supplied %r expected "%s %s", file has %r' % (
                name, kwargs[name], o['value'], unit, got))
    for name, (sec, key, _) in PLAIN_OPTS.items():
        got = lookup(sec, key)
        if name not in case['opts']:
            if name == 'T' and 'multi_T' in case['multi']:
                try:
                    ok0 = abs(float(got) - case['multi']['multi_T'][0]) <= 1e-6 * case['multi']['multi_T'][0]
                except (TypeError, ValueError):
                    ok0 = False
                if not ok0:
                    ctx.fail('C07.reactor/base-case-from-sweep:T', 'sweep %r, base entry %r' % (case['multi']['multi_T'], got))
                continue
            if got != '<absent>':
                ctx.fail('C07.reactor/key-for-omitted-option:%s' % name, repr(got))
            continue
        o = case['opts'][name]
        if got == '<absent>':
            ctx.fail('C07.reactor/supplied-option-missing:%s' % o['form'], '%s=%r not in the file' % (name, kwargs[name]))
            continue
        want = o['value']
        if isinstance(want, str):
            ok = str(got).strip('"') == want
        elif isinstance(want, bool):
            ok = got is want
        else:
            try:
                ok = abs(float(got) - float(want)) <= 1e-6 * abs(float(want))
            except (TypeError, ValueError):
                ok = False
        if not ok:
            ctx.fail('C07.reactor/value:%s' % o['form'], '%s: supplied %r, file has %r' % (name, kwargs[name], got))
    for name, key, utpl in (('multi_T', 'temperature', None), ('multi_P', 'pressure', '{pressure}'),
                            ('multi_flow_rate', 'flow_rate', '{length}3/{time}')):
        got = lookup('simulation/multi_input', key)
        if name not in case['multi']:
            if got != '<absent>':
                ctx.fail('C07.reactor/key-for-omitted-option:%s' % name, repr(got))
            continue
        if got == '<absent>' or len(got) != len(case['multi'][name]):
            ctx.fail('C07.reactor/supplied-option-missing:list', '%s=%r, file has %r' % (name, case['multi'][name], got))
            continue
        for g_, w_ in zip(got, case['multi'][name]):
            m = re.match(r'^\s*"?([-+0-9.eE]+)\s*([^"]*)"?$', str(g_))
            if not m or abs(float(m.group(1)) - w_) > 1e-6 * w_ or \
                    (utpl and m.group(2).strip() != (utpl.format(**udict) if units is not None else '')):
                ctx.fail('C07.reactor/value-or-unit:list', '%s: %r vs %r' % (name, g_, w_))
                break
    if misc is not None and misc != {'my_section': {'answer': 42}}:
        ctx.fail('C07.reactor/callers-misc-dictionary-modified', repr(sorted(misc)))
    # ... and nothing else: every leaf of the document is accounted for by a supplied option
    allowed = set()
    if misc is not None:
        allowed.add('my_section/answer')
        if lookup('my_section', 'answer') != 42:
            ctx.fail('C07.reactor/supplied-option-missing:misc', repr(doc.get('my_section')))
    for name in case['opts']:
        sec, key = (DIM_OPTS.get(name) or PLAIN_OPTS[name])[:2]
        allowed.add('%s/%s' % (sec, key))
    if 'multi_T' in case['multi']:
        allowed.update(['simulation/multi_input/temperature', 'reactor/temperature'])   # (first value doubles as the base case)
    if 'multi_P' in case['multi']:
        allowed.update(['simulation/multi_input/pressure', 'reactor/pressure'])
    if 'multi_flow_rate' in case['multi']:
        allowed.update(['simulation/multi_input/flow_rate', 'inlet_gas/flow_rate'])

    def leaves(node, path):
        if isinstance(node, dict) and node:
            for k_, v_ in node.items():
                yield from leaves(v_, path + [str(k_)])
        else:
            yield '/'.join(path), node
    for pth, val in leaves(doc, []):
        if pth.startswith('phases') and case['with_phases'] != 'none':
            continue
        if pth in allowed or (units is not None and pth.startswith('units/')):
            continue
        ctx.fail('C07.reactor/entry-nobody-supplied', '%s: %r (supplied: %r)' % (pth, val, sorted(allowed)))
        break
    if case['with_phases'] == 'list':
        ph = doc.get('phases', {})
        try:
            ok = (ph.get('gas') or {}).get('name') == 'gas' and [p.get('name') for p in ph.get('surfaces', [])] == ['terrace']
        except AttributeError:          # not the documented mapping-of-mappings shape at all
            ok = False
        if not ok:
            ctx.fail('C07.reactor/phases', repr(ph))


# =============================================================================
# 3. thermo YAML and CTI of a whole model
@st.composite
def model_case(draw):
    units = {k: draw(st.sampled_from(v)) for k, v in UNIT_CHOICES.items()}
    ngas = draw(st.integers(1, 4))
    nsurf = draw(st.integers(1, 2))

    def thermo(kind):
        if kind == 'Nasa':
            return draw(gen.nasa_desc(name='x'))
        if kind == 'Nasa9':
            d9 = draw(gen.nasa9_desc(name='x'))
            if draw(st.booleans()):
                d9['segs'] = d9['segs'][::-1]       # intervals may be listed in any order
            return d9
        return draw(gen.shomate_desc(name='x'))
    comp = st.dictionaries(st.sampled_from(ELEMS), st.integers(1, 4), min_size=1, max_size=3)
    gas = [{'name': 'G%d' % i, 'elements': draw(comp), 'th': thermo(draw(st.sampled_from(['Nasa', 'Nasa', 'Nasa9', 'Shomate'])))}
           for i in range(ngas)]
    surfaces = []
    ads = []
    for k in range(nsurf):
        surfaces.append({'name': 'surf%d' % k, 'sden': draw(gen.logf(1e-11, 1e-8)), 'motz': draw(st.booleans())})
        ads.append({'name': 'V(S%d)' % k, 'surface': k, 'elements': {'Pt': 1}, 'n_sites': 1, 'th': thermo('Nasa')})
        for j in range(draw(st.integers(1, 4))):
            ads.append({'name': 'A%d(S%d)' % (j, k), 'surface': k, 'elements': dict(draw(comp), Pt=1),
                        'n_sites': draw(st.sampled_from([1, 1, 2, 3])),
                        'th': thermo(draw(st.sampled_from(['Nasa', 'Nasa', 'Nasa9', 'Shomate'])))})
    have_bulk = draw(st.booleans())
    nbep = draw(st.integers(0, 2))
    beps = [{'name': draw(st.sampled_from(['BEP_%d' % b, 'NH-bep%d' % b])), 'slope': draw(st.floats(0, 1)),
             'intercept': draw(st.floats(0, 60)), 'direction': draw(st.sampled_from(['cleavage', 'synthesis'])),
             'descriptor': draw(st.sampled_from(['delta_H', 'rev_delta_H']))} for b in range(nbep)]
    rxns = []
    id_mode = draw(st.sampled_from(['auto', 'user', 'mixed', 'user-low']))
    for m in range(draw(st.integers(0, 8))):
        k = draw(st.integers(0, nsurf - 1))
        mine = [i for i, a in enumerate(ads) if a['surface'] == k and not a['name'].startswith('V(')]
        vac = next(i for i, a in enumerate(ads) if a['name'] == 'V(S%d)' % k)
        kind = draw(st.sampled_from(['ads', 'surf', 'surf']))
        if kind == 'ads':
            a = draw(st.sampled_from(mine))
            r = {'kind': 'ads', 'react': [['gas', draw(st.integers(0, ngas - 1)), 1.0], ['ads', vac, float(ads[a]['n_sites'])]],
                 'prod': [['ads', a, 1.0]], 'ts': None, 'stick': draw(st.one_of(st.none(), st.floats(0.01, 1.0))),
                 'beta': draw(st.sampled_from([None, 0.0]))}
        else:
            a, b = draw(st.sampled_from(mine)), draw(st.sampled_from(mine))
            ts = draw(st.sampled_from(['none', 'explicit', 'bep'])) if beps else draw(st.sampled_from(['none', 'explicit']))
            r = {'kind': 'surf', 'react': [['ads', a, 1.0]] + ([['ads', vac, 1.0]] if draw(st.booleans()) else []),
                 'prod': [['ads', b, draw(st.sampled_from([1.0, 2.0]))]] + ([['gas', draw(st.integers(0, ngas - 1)), 1.0]]
                                                                          if draw(st.booleans()) else []),
                 'ts': ts, 'bep': draw(st.integers(0, max(0, nbep - 1))), 'stick': None,
                 'beta': draw(st.sampled_from([None, 1.0, 0.5])),
                 # user-supplied rate parameters override the computed ones (Ea documented in kcal/mol)
                 'Ea_user': draw(st.one_of(st.none(), st.none(), st.just(0.0), st.floats(0.0, 60))),
                 'A_user': draw(st.one_of(st.none(), st.none(), gen.logf(1e8, 1e22)))}
        if id_mode == 'user' or (id_mode == 'mixed' and draw(st.booleans())):
            r['id'] = 'r_%04d' % (100 + m)
        elif id_mode == 'user-low' and m % 2 == 0:
            r['id'] = 'r_%04d' % (m // 2)          # user ids in the range the automatic numbering uses
        else:
            r['id'] = None
        r['surface'] = k
        rxns.append(r)
    inter = []
    for _ in range(draw(st.integers(0, 3))):
        k = draw(st.integers(0, nsurf - 1))
        mine = [a['name'] for a in ads if a['surface'] == k]
        cm = draw(__import__('vf.p13', fromlist=['cov_model']).cov_model())
        inter.append({'surface': k, 'name_i': draw(st.sampled_from(mine)), 'name_j': draw(st.sampled_from(mine)),
                      'intervals': cm['intervals'], 'slopes': cm['slopes'],
                      'name': draw(st.sampled_from([None, None, 'i_%04d' % (len(inter) + draw(st.sampled_from([0, 40])))]))})
    return {'units': units, 'gas': gas, 'surfaces': surfaces, 'ads': ads, 'bulk': have_bulk, 'beps': beps, 'rxns': rxns,
            'inter': inter, 'T': draw(st.floats(300, 1000)), 'P': draw(gen.logf(0.1, 10)), 'motz': draw(st.booleans())}


def build_model(case):
    from pmutt.mixture.cov import PiecewiseCovEffect
    from pmutt.omkm.phase import IdealGas, InteractingInterface, StoichSolid
    from pmutt.omkm.reaction import BEP, SurfaceReaction
    from pmutt.omkm.units import Units

    def mk(d, phase=None, **kw):
        th = dict(d['th'])
        th['name'] = d['name']
        th['elements'] = dict(d['elements'])
        th['phase'] = phase
        return gen.build_species(th, **kw)
    # gas species are declared as such (they carry the pressure adjustment, so activation energies depend on P);
    # the phase objects below then take the species over
    gas = [mk(g, phase='gas') for g in case['gas']]
    ads = [mk(a, n_sites=a['n_sites']) for a in case['ads']]
    bulk = [mk({'name': 'PT(B)', 'elements': {'Pt': 1}, 'th': case['ads'][0]['th']})] if case['bulk'] else []
    beps = [BEP(slope=b['slope'], intercept=b['intercept'], name=b['name'], descriptor=b['descriptor'], direction=b['direction'])
            for b in case['beps']]
    ts_species = []
    rxns = []
    for m, r in enumerate(case['rxns']):
        def side(items):
            return [(gas if k == 'gas' else ads)[i] for k, i, _ in items], [c_ for _, _, c_ in items]
        re_, rs = side(r['react'])
        pr, ps = side(r['prod'])
        ts = None
        direction = None
        if r['ts'] == 'explicit':
            d = {'name': 'TS%d(S%d)' % (m, r['surface']), 'elements': {'Pt': 1}, 'th': case['ads'][0]['th']}
            t = mk(d, n_sites=1)
            t.a_low = t.a_low + np.array([0, 0, 0, 0, 0, 8000.0 + 300 * m, 0])
            t.a_high = t.a_high + np.array([0, 0, 0, 0, 0, 8000.0 + 300 * m, 0])
            ts = [t]
            ts_species.append((t, r['surface']))
        elif r['ts'] == 'bep':
            ts = [beps[r['bep']]]
            direction = case['beps'][r['bep']]['direction']
        rxns.append(SurfaceReaction(reactants=re_, reactants_stoich=rs, products=pr, products_stoich=ps, transition_state=ts,
                                    transition_state_stoich=[1.0] if ts else None, id=r['id'], is_adsorption=r['kind'] == 'ads',
                                    sticking_coeff=r['stick'], beta=r['beta'], direction=direction,
                                    Ea=r.get('Ea_user'), A=r.get('A_user')))
    inter = [PiecewiseCovEffect(name_i=i['name_i'], name_j=i['name_j'], intervals=list(i['intervals']), slopes=list(i['slopes']),
                                name=i['name']) for i in case['inter']]
    gas_ph = IdealGas(name='gas', species=gas)
    phases = [gas_ph]
    bulk_ph = None
    if bulk:
        bulk_ph = StoichSolid(name='bulk', species=bulk, density=21.4)
        phases.append(bulk_ph)
    surf_ph = []
    for k, s in enumerate(case['surfaces']):
        sp = [a for a, d in zip(ads, case['ads']) if d['surface'] == k] + [t for t, kk in ts_species if kk == k]
        rx = [x for x, d in zip(rxns, case['rxns']) if d['surface'] == k]
        it = [x for x, d in zip(inter, case['inter']) if d['surface'] == k]
        ph = InteractingInterface(name=s['name'], species=sp, site_density=s['sden'], phases=[gas_ph] + ([bulk_ph] if bulk_ph else []),
                                  reactions=rx, interactions=it or None, use_motz_wise=s['motz'])
        surf_ph.append(ph)
        phases.append(ph)
    species = gas + bulk + ads + [t for t, _ in ts_species]
    return {'units': Units(**case['units']), 'phases': phases, 'species': species, 'reactions': rxns, 'interactions': inter,
            'beps': beps, 'gas': gas, 'ads': ads, 'surf_ph': surf_ph}


def _num_unit(s):
    m = re.match(r'^\s*"?([-+0-9.eE]+)\s*([^"]*)"?\s*$', str(s))
    return (float(m.group(1)), m.group(2).strip()) if m else (None, None)


def _species_expect(sp):
    from pmutt.empirical.nasa import Nasa, Nasa9
    if isinstance(sp, Nasa):
        return 'NASA7', [float(sp.T_low), float(sp.T_mid), float(sp.T_high)], [list(map(float, sp.a_low)), list(map(float, sp.a_high))]
    if isinstance(sp, Nasa9):
        ns = sorted(sp.nasas, key=lambda n: n.T_low)
        return 'NASA9', [float(n.T_low) for n in ns] + [float(ns[-1].T_high)], [list(map(float, n.a)) for n in ns]
    return 'Shomate', [float(sp.T_low), float(sp.T_high)], [list(map(float, sp.a[:7]))]


class _Rec:
    """recording stubs for the CTI directives"""

    def __init__(self):
        self.calls = []

    NCOEF = {'NASA': 7, 'NASA9': 9, 'Shomate': 7}

    def stub(self, name):
        def f(*a, **k):
            if name in self.NCOEF and (len(a) != 2 or len(a[0]) != 2 or len(a[1]) != self.NCOEF[name]):
                raise ValueError('%s takes a temperature range and %d coefficients, got %r' % (name, self.NCOEF[name], a))
            self.calls.append((name, a, k))
            return (name, a, k)
        return f


CTI_NAMES = ['units', 'ideal_gas', 'stoichiometric_solid', 'interacting_interface', 'species', 'NASA', 'NASA9', 'Shomate',
             'surface_reaction', 'stick', 'lateral_interaction', 'bep', 'enable_motz_wise', 'disable_motz_wise']


def check_model(case, ctx):
    import yaml
    from pmutt import constants as c
    from pmutt.io.omkm import write_cti, write_thermo_yaml
    M = build_model(case)
    units = M['units']
    T, P = case['T'], case['P']
    kinds = {type(p).__name__ for p in M['phases']}
    ctx.nontrivial(len(kinds) >= 2 and (len(M['beps']) > 0 and any(r['ts'] == 'bep' for r in case['rxns']) or len(M['interactions']) > 0))
    ctx.label('reactions:%s' % ('0' if not M['reactions'] else '1+'), 'beps:%d' % len(M['beps']), 'interactions:%s' % (
        '0' if not M['interactions'] else '1+'))
    ids_given = [r['id'] for r in case['rxns'] if r['id']]
    if M['interactions'] and units.quantity == 'molec':
        # lateral-interaction strengths need an energy-per-molecule unit such as cal/molec, which convert_unit does not know
        try:
            write_thermo_yaml(phases=M['phases'], species=M['species'], lateral_interactions=M['interactions'], units=units, T=T)
            write_cti(phases=M['phases'], species=M['species'], lateral_interactions=M['interactions'], units=units, T=T)
        except ValueError as e:
            if exc_site(e) != 'constants.convert_unit':
                raise
            ctx.fail('C07.model/interaction-strength-per-molecule-unit-unsupported', str(e)[:160])
            return
    txt = write_thermo_yaml(phases=M['phases'], species=M['species'], reactions=M['reactions'] or None,
                            lateral_interactions=M['interactions'] or None, units=units, T=T, P=P, use_motz_wise=case['motz'])
    try:
        doc = yaml.safe_load(txt)
    except yaml.YAMLError as e:
        kinds_ = sorted({type(s).__name__ for s in M['species'] if getattr(s, 'n_sites', None) is not None})
        ctx.fail('C07.model/yaml-does-not-load', '%s (species with sites: %r)' % (str(e)[:160], kinds_))
        return
    # ---------------- units -------------------------------------------------------
    u = doc.get('units', {})
    want_u = {'mass': units.mass, 'length': units.length, 'time': units.time, 'quantity': units.quantity, 'energy': units.energy,
              'activation-energy': units.act_energy, 'pressure': units.pressure}
    if u != want_u:
        ctx.fail('C07.model/yaml:units', '%r vs %r' % (u, want_u))
    # ---------------- species -----------------------------------------------------
    ys = doc.get('species', [])
    if [s.get('name') for s in ys] != [s.name for s in M['species']]:
        ctx.fail('C07.model/yaml:species-list', 'file %r model %r' % ([s.get('name') for s in ys], [s.name for s in M['species']]))
        return
    for sp, ent in zip(M['species'], ys):
        model_, tr, data = _species_expect(sp)
        th = ent.get('thermo', {})
        if ent.get('composition') != dict(sp.elements) or th.get('model') != model_:
            ctx.fail('C07.model/yaml:species-header:%s' % type(sp).__name__, '%s: %r' % (sp.name, ent))
            break
        if th.get('temperature-ranges') != tr:
            ctx.fail('C07.model/yaml:temperature-ranges:%s' % type(sp).__name__, '%s: file %r model %r' % (
                sp.name, th.get('temperature-ranges'), tr))
            break
        if th.get('data') != data:
            ctx.fail('C07.model/yaml:coefficients:%s' % type(sp).__name__, '%s: file %r model %r' % (sp.name, th.get('data'), data))
            break
        ns = getattr(sp, 'n_sites', None)
        if ent.get('sites', None) != ns:
            ctx.fail('C07.model/yaml:sites:%s' % type(sp).__name__, '%s: file %r model %r' % (sp.name, ent.get('sites', None), ns))
            break
    # ---------------- reactions ------------------------------------------------------
    yr = doc.get('reactions', []) or []
    if len(yr) != len(M['reactions']):
        ctx.fail('C07.model/yaml:reaction-count', '%d vs %d' % (len(yr), len(M['reactions'])))
        return
    ids = [e.get('id') for e in yr]
    if len(set(ids)) != len(ids) or any(i is None for i in ids):
        ctx.fail('C07.model/yaml:reaction-ids-not-unique', '%r (user ids %r)' % (ids, ids_given))
        return
    A_units = '%s/%s2' % (units.quantity, units.length)
    for rx, r, e in zip(M['reactions'], case['rxns'], yr):
        eq = rx.to_string(stoich_space=True, species_delimiter=' + ', reaction_delimiter=' <=> ', include_TS=False)
        if e.get('equation') != eq:
            ctx.fail('C07.model/yaml:equation', '%r vs %r' % (e.get('equation'), eq))
            break
        if r['id'] and e.get('id') != r['id']:
            ctx.fail('C07.model/yaml:user-id-changed', '%r vs %r' % (e.get('id'), r['id']))
            break
        if r['kind'] == 'ads':
            rc = e.get('sticking-coefficient', {})
            wantA = r['stick'] if r['stick'] is not None else 0.5       # documented default
            wantE = rx.get_H_act(units=units.act_energy, T=T, P=P)
            if e.get('sticking-species') != rx.reactants[0].name or e.get('Motz-Wise') not in (case['motz'], str(case['motz'])):
                ctx.fail('C07.model/yaml:sticking-fields', repr(e))
                break
        else:
            rc = e.get('rate-constant', {})
            wantA = float(rx.get_A(T=T, P=P, include_entropy=False, units=A_units))
            wantE = rx.get_G_act(units=units.act_energy, T=T, P=P)
            if r.get('A_user') is not None:
                wantA = r['A_user']
            if r.get('Ea_user') is not None:
                wantE = c.convert_unit(r['Ea_user'], initial='kcal/mol', final=units.act_energy)
        ev, eu = _num_unit(rc.get('Ea'))
        if ev is None or eu != units.act_energy or abs(ev - wantE) > 1e-9 * max(1.0, abs(wantE)):
            ctx.fail('C07.model/yaml:Ea:%s' % r['kind'], '%s: file %r model %r %s' % (eq, rc.get('Ea'), wantE, units.act_energy))
            break
        av, au = _num_unit(rc.get('A'))
        if av is None or abs(av - wantA) > 1e-9 * abs(wantA):
            ctx.fail('C07.model/yaml:A:%s' % r['kind'], '%s: file %r model %r' % (eq, rc.get('A'), wantA))
            break
        # documented default: 1 for a surface step, 0 for an adsorption step
        want_b = r['beta'] if r['beta'] is not None else (0.0 if r['kind'] == 'ads' else 1.0)
        if float(rc.get('b')) != float(want_b):
            ctx.fail('C07.model/yaml:b', '%s: %r vs %r' % (eq, rc.get('b'), want_b))
            break
    # ---------------- phases -----------------------------------------------------------
    yp = doc.get('phases', [])
    if [p.get('name') for p in yp] != [p.name for p in M['phases']]:
        ctx.fail('C07.model/yaml:phase-list', repr([p.get('name') for p in yp]))
        return
    for ph, e in zip(M['phases'], yp):
        if e.get('species') != list(ph.species_names) or sorted(e.get('elements', [])) != sorted(ph.elements):
            ctx.fail('C07.model/yaml:phase-members', '%s: %r / %r' % (ph.name, e.get('species'), e.get('elements')))
            break
        if hasattr(ph, 'site_density'):
            sv, su = _num_unit(e.get('site-density'))
            want = ph.site_density * c.convert_unit(initial='mol', final=units.quantity) / \
                c.convert_unit(initial='cm2', final=units.length + '2')
            if sv is None or su != '%s/%s^2' % (units.quantity, units.length) or abs(sv - want) > 1e-9 * want:
                ctx.fail('C07.model/yaml:site-density', '%s: file %r model %r %s/%s^2' % (
                    ph.name, e.get('site-density'), want, units.quantity, units.length))
                break
            # what the interface declares: reactions / interactions / BEPs are switched on exactly when it has any
            k_ = M['surf_ph'].index(ph)
            has_rx = any(d['surface'] == k_ for d in case['rxns'])
            has_it = any(d['surface'] == k_ for d in case['inter'])
            has_bep = any(d['surface'] == k_ and d['ts'] == 'bep' for d in case['rxns'])
            want_flags = {'reactions': 'declared-species' if has_rx else 'none',
                          'interactions': 'declared-species' if has_it else 'none',
                          'beps': 'all' if has_bep else 'none'}
            got_flags = {k2: e.get(k2) for k2 in want_flags}
            if got_flags != want_flags:
                ctx.fail('C07.model/yaml:interface-declarations', '%s: file %r, model %r' % (ph.name, got_flags, want_flags))
                break
    # ---------------- BEPs and interactions ---------------------------------------------
    used_beps = []
    for rx in M['reactions']:
        b = getattr(rx, 'bep', None)
        if b is not None and b not in used_beps:
            used_beps.append(b)
    def bep_members(b_):
        """intended membership, from the case: the reactions given this BEP as transition state, filed under its direction"""
        k_ = [id(x) for x in M['beps']].index(id(b_))
        ids = {rx_.id for rx_, r_ in zip(M['reactions'], case['rxns']) if r_['ts'] == 'bep' and r_['bep'] == k_}
        d_ = case['beps'][k_]['direction']
        return {'cleavage': ids if d_ == 'cleavage' else set(), 'synthesis': ids if d_ == 'synthesis' else set()}
    yb = doc.get('beps', []) or []
    if [b.get('id') for b in yb] != [b.name for b in used_beps]:
        ctx.fail('C07.model/yaml:bep-list', '%r vs %r' % ([b.get('id') for b in yb], [b.name for b in used_beps]))
    else:
        for b, e in zip(used_beps, yb):
            iv, iu = _num_unit(e.get('intercept'))
            want = c.convert_unit(b.intercept, 'kcal/mol', units.act_energy)
            if e.get('slope') != b.slope or e.get('direction') != b.direction or iv is None or iu != units.act_energy or \
                    abs(iv - want) > 1e-9 * max(1, abs(want)):
                ctx.fail('C07.model/yaml:bep-parameters', repr(e))
                break
            for key, want_ids in (('cleavage-reactions', bep_members(b)['cleavage']), ('synthesis-reactions', bep_members(b)['synthesis'])):
                got_ids = decode_range(['"%s"' % s_.strip('"') for s_ in e.get(key, [])], 'list') if e.get(key) else set()
                if got_ids != want_ids:
                    ctx.fail('C07.model/yaml:bep-members', '%s %s: file %r model %r' % (b.name, key, e.get(key), sorted(want_ids)))
                    break
    yi = doc.get('interactions', []) or []
    if len(yi) != len(M['interactions']):
        ctx.fail('C07.model/yaml:interaction-count', '%d vs %d' % (len(yi), len(M['interactions'])))
    else:
        seen = set()
        for it, e in zip(M['interactions'], yi):
            sv = [_num_unit(s_) for s_ in e.get('strength', [])]
            want = [c.convert_unit(s_, initial='kcal/mol', final='%s/%s' % (units.energy, units.quantity)) for s_ in it.slopes]
            if e.get('species') != [it.name_i, it.name_j] or e.get('coverage-threshold') != list(it.intervals) or \
                    len(sv) != len(want) or any(a is None or abs(a - w) > 1e-9 * max(1, abs(w)) for (a, _), w in zip(sv, want)) or \
                    any(u_ != '%s/%s' % (units.energy, units.quantity) for _, u_ in sv):
                ctx.fail('C07.model/yaml:interaction-parameters', '%r vs slopes %r' % (e, want))
                break
            if e.get('id') in seen or e.get('id') is None:
                ctx.fail('C07.model/yaml:interaction-ids-not-unique', repr([x.get('id') for x in yi]))
                break
            seen.add(e.get('id'))
    # ======================= CTI ===========================================================
    cti = write_cti(phases=M['phases'], species=M['species'], reactions=M['reactions'] or None,
                    lateral_interactions=M['interactions'] or None, units=units, T=T, P=P, use_motz_wise=case['motz'])
    try:
        tree = ast.parse(cti)
    except SyntaxError as e:
        ctx.fail('C07.model/cti-not-parsable', str(e)[:200])
        return
    rec = _Rec()
    ns = {n: rec.stub(n) for n in CTI_NAMES}
    ns['__builtins__'] = {}
    try:
        exec(compile(tree, '<cti>', 'exec'), ns)
    except NameError as e:
        ctx.fail('C07.model/cti-unknown-directive', str(e))
        return
    except ValueError as e:
        ctx.fail('C07.model/cti-directive-arguments', str(e)[:200])
        return
    calls = rec.calls
    by = {}
    for name, a, k in calls:
        by.setdefault(name, []).append((a, k))
    if len(by.get('units', [])) != 1 or by['units'][0][1] != {'length': units.length, 'time': units.time, 'quantity': units.quantity,
                                                                 'energy': units.energy, 'act_energy': units.act_energy,
                                                                 'pressure': units.pressure, 'mass': units.mass}:
        ctx.fail('C07.model/cti:units', repr(by.get('units')))
    csp = by.get('species', [])
    if [k.get('name') for _, k in csp] != [s.name for s in M['species']]:
        ctx.fail('C07.model/cti:species-list', '%r' % [k.get('name') for _, k in csp])
    else:
        for sp, (_, k) in zip(M['species'], csp):
            atoms = dict(tok.split(':') for tok in k.get('atoms', '').split())
            if {a: int(v) for a, v in atoms.items()} != {a: int(v) for a, v in sp.elements.items()}:
                ctx.fail('C07.model/cti:species-atoms', '%s: %r' % (sp.name, k.get('atoms')))
                break
            if k.get('size', None) != getattr(sp, 'n_sites', None):
                ctx.fail('C07.model/cti:species-size', '%s: %r vs %r' % (sp.name, k.get('size', None), getattr(sp, 'n_sites', None)))
                break
            model_, tr, data = _species_expect(sp)
            th = k.get('thermo')
            segs = list(th) if isinstance(th, tuple) and th and isinstance(th[0], tuple) and th[0] and isinstance(th[0][0], str) and \
                isinstance(th[0], tuple) and th[0][0] in ('NASA', 'NASA9', 'Shomate') and not isinstance(th[0][1], str) else [th]
            if isinstance(th, tuple) and len(th) == 3 and isinstance(th[0], str):
                segs = [th]
            got_ranges, got_data = [], []
            for sg in segs:
                nm, a, _k = sg
                got_ranges.append([float(a[0][0]), float(a[0][1])])
                got_data.append([float(x) for x in a[1]])
            want_ranges = [[tr[i], tr[i + 1]] for i in range(len(tr) - 1)]
            # the CTI entry lists each (range, coefficients) parameterisation; their order is not part of the content
            order_ = sorted(range(len(got_ranges)), key=lambda q: got_ranges[q])
            got_ranges = [got_ranges[q] for q in order_]
            got_data = [got_data[q] for q in order_]
            ok = len(got_data) == len(data) and all(
                all(abs(g_ - w_) <= 6e-9 * abs(w_) + 1e-300 for g_, w_ in zip(gd, wd)) and len(gd) == len(wd)
                for gd, wd in zip(got_data, data)) and got_ranges == want_ranges
            if not ok:
                ctx.fail('C07.model/cti:species-thermo:%s' % type(sp).__name__, '%s: ranges %r data %r vs %r %r' % (
                    sp.name, got_ranges, got_data, want_ranges, data))
                break
    crx = by.get('surface_reaction', [])
    if len(crx) != len(M['reactions']):
        ctx.fail('C07.model/cti:reaction-count', '%d vs %d' % (len(crx), len(M['reactions'])))
    else:
        cids = [k.get('id') for _, k in crx]
        if len(set(cids)) != len(cids):
            ctx.fail('C07.model/cti:reaction-ids-not-unique', repr(cids))
        for rx, r, (a, k) in zip(M['reactions'], case['rxns'], crx):
            eq = rx.to_string(stoich_space=True, species_delimiter=' + ', reaction_delimiter=' <=> ', include_TS=False)
            if a[0] != eq:
                ctx.fail('C07.model/cti:equation', '%r vs %r' % (a[0], eq))
                break
            rate = a[1]
            if r['kind'] == 'ads':
                if not (isinstance(rate, tuple) and rate[0] == 'stick'):
                    ctx.fail('C07.model/cti:stick-missing', repr(rate))
                    break
                vals = rate[1]
                wantA, wantE = (r['stick'] if r['stick'] is not None else 0.5), rx.get_H_act(units=units.act_energy, T=T, P=P)
            else:
                vals = rate
                wantA = float(rx.get_A(T=T, P=P, include_entropy=False, units=A_units))
                wantE = rx.get_G_act(units=units.act_energy, T=T, P=P)
                if r.get('A_user') is not None:
                    wantA = r['A_user']
                if r.get('Ea_user') is not None:
                    wantE = c.convert_unit(r['Ea_user'], initial='kcal/mol', final=units.act_energy)
            want_b = r['beta'] if r['beta'] is not None else (0.0 if r['kind'] == 'ads' else 1.0)
            if abs(vals[0] - wantA) > 6e-6 * abs(wantA) or float(vals[1]) != float(want_b) or \
                    abs(vals[2] - wantE) > 6e-6 * abs(wantE) + 1e-9:
                ctx.fail('C07.model/cti:rate-parameters:%s' % r['kind'], '%s: file %r model %r %r %r' % (eq, vals, wantA, rx.beta, wantE))
                break
    # phases: range-encoded members decode to exactly the phase's reactions / interactions
    ci = by.get('interacting_interface', [])
    if [k.get('name') for _, k in ci] != [p.name for p in M['surf_ph']]:
        ctx.fail('C07.model/cti:interface-list', repr([k.get('name') for _, k in ci]))
    else:
        for ph, (_, k) in zip(M['surf_ph'], ci):
            if k.get('species', '').split() != list(ph.species_names) or sorted(k.get('elements', '').split()) != sorted(ph.elements):
                ctx.fail('C07.model/cti:phase-members', '%s: %r' % (ph.name, k.get('species')))
                break
            want = ph.site_density * c.convert_unit(initial='mol', final=units.quantity) / \
                c.convert_unit(initial='cm2', final=units.length + '2')
            if abs(k.get('site_density', 0) - want) > 1e-9 * want:
                ctx.fail('C07.model/cti:site-density', '%s: %r vs %r' % (ph.name, k.get('site_density'), want))
                break
            for field, objs in (('reactions', ph.reactions), ('interactions', ph.interactions)):
                if objs is None:
                    continue
                got = k.get(field)
                got_ids = set()
                if got not in (None, []):
                    got_ids = decode_range(['"%s"' % g_ for g_ in got], 'list')
                want_ids = {getattr(o, 'id', None) or getattr(o, 'name', None) for o in objs}
                if got_ids != want_ids:
                    ctx.fail('C07.model/cti:phase-%s' % field, '%s: file %r model %r' % (ph.name, got, sorted(want_ids)))
                    break
            # the BEPs its reactions use, by name (from the case, not from the phase's own property)
            k_ = M['surf_ph'].index(ph)
            want_b = []
            for rx_, r_ in zip(M['reactions'], case['rxns']):
                if r_['surface'] == k_ and r_['ts'] == 'bep' and M['beps'][r_['bep']].name not in want_b:
                    want_b.append(M['beps'][r_['bep']].name)
            got_b = k.get('beps')
            got_b = [] if got_b in (None, '') else (got_b.split() if isinstance(got_b, str) else list(got_b))
            if sorted(got_b) != sorted(want_b):
                ctx.fail('C07.model/cti:phase-beps', '%s: file %r, its reactions use %r' % (ph.name, k.get('beps'), want_b))
                break
    # gas and bulk phases
    cg = by.get('ideal_gas', [])
    gas_ph = [p for p in M['phases'] if type(p).__name__ == 'IdealGas']
    if [k.get('name') for _, k in cg] != [p.name for p in gas_ph]:
        ctx.fail('C07.model/cti:gas-phase-list', repr([k.get('name') for _, k in cg]))
    else:
        for ph, (_, k) in zip(gas_ph, cg):
            if k.get('species', '').split() != list(ph.species_names) or sorted(k.get('elements', '').split()) != sorted(ph.elements):
                ctx.fail('C07.model/cti:phase-members', '%s: %r / %r' % (ph.name, k.get('species'), k.get('elements')))
    cs = by.get('stoichiometric_solid', [])
    sol_ph = [p for p in M['phases'] if type(p).__name__ == 'StoichSolid']
    if [k.get('name') for _, k in cs] != [p.name for p in sol_ph]:
        ctx.fail('C07.model/cti:bulk-phase-list', repr([k.get('name') for _, k in cs]))
    else:
        for ph, (_, k) in zip(sol_ph, cs):
            want = ph.density * c.convert_unit(initial='g', final=units.mass) / c.convert_unit(initial='cm3', final=units.length + '3')
            if k.get('species', '').split() != list(ph.species_names) or abs(k.get('density', 0) - want) > 1e-9 * want:
                ctx.fail('C07.model/cti:bulk-phase', '%s: %r density %r vs %r' % (ph.name, k.get('species'), k.get('density'), want))
    # lateral interactions and BEPs as CTI directives
    cl = by.get('lateral_interaction', [])
    if len(cl) != len(M['interactions']):
        ctx.fail('C07.model/cti:interaction-count', '%d vs %d' % (len(cl), len(M['interactions'])))
    else:
        for it, (a, k) in zip(M['interactions'], cl):
            want = [c.convert_unit(s_, initial='kcal/mol', final='%s/%s' % (units.energy, units.quantity)) for s_ in it.slopes]
            if a[0] != '%s %s' % (it.name_i, it.name_j) or list(k.get('coverage_thresholds', [])) != list(it.intervals) or \
                    len(k.get('strengths', [])) != len(want) or \
                    any(abs(g_ - w_) > 1e-9 * max(1, abs(w_)) for g_, w_ in zip(k.get('strengths', []), want)) or k.get('id') != it.name:
                ctx.fail('C07.model/cti:interaction-parameters', '%r %r vs %r %r' % (a, k, it.slopes, it.name))
                break
    cb = by.get('bep', [])
    if [k.get('id') for _, k in cb] != [b.name for b in used_beps]:
        ctx.fail('C07.model/cti:bep-list', '%r vs %r' % ([k.get('id') for _, k in cb], [b.name for b in used_beps]))
    else:
        for b, (_, k) in zip(used_beps, cb):
            want = c.convert_unit(b.intercept, 'kcal/mol', units.act_energy)
            ok = k.get('slope') == b.slope and k.get('direction') == b.direction and abs(k.get('intercept', 1e99) - want) <= 1e-9 * max(1, abs(want))
            for key, want_ids in (('cleavage_reactions', bep_members(b)['cleavage']), ('synthesis_reactions', bep_members(b)['synthesis'])):
                got = k.get(key)
                got_ids = decode_range(['"%s"' % g_ for g_ in got], 'list') if got not in (None, [], '[]') else set()
                ok = ok and got_ids == want_ids
            if not ok:
                ctx.fail('C07.model/cti:bep-parameters', '%s: %r' % (b.name, k))
                break
    n_motz = len(by.get('enable_motz_wise', [])) + len(by.get('disable_motz_wise', []))
    if M['reactions'] and (n_motz != 1 or bool(by.get('enable_motz_wise')) != case['motz']):
        ctx.fail('C07.model/cti:motz-wise', 'enable %d disable %d wanted %s' % (
            len(by.get('enable_motz_wise', [])), len(by.get('disable_motz_wise', [])), case['motz']))


# =============================================================================
# 4. organize_phases: phases built from species that only carry a phase *name*
@st.composite
def organize_case(draw):
    nsurf = draw(st.integers(1, 2))
    names = ['gas'] + (['bulk'] if draw(st.booleans()) else []) + ['surf%d' % k for k in range(nsurf)]
    order = list(draw(st.permutations(names)))
    pool = names + [None, 'elsewhere']          # species of no phase / of a phase nobody asked for
    nsp = draw(st.integers(2, 10))
    sp_phase = [draw(st.sampled_from(pool)) for _ in range(nsp)]
    # every requested interface gets at least one species (an interface without species has no elements to write)
    for k in range(nsurf):
        if 'surf%d' % k not in sp_phase:
            sp_phase.append('surf%d' % k)
    if 'gas' not in sp_phase:
        sp_phase.append('gas')
    rx = []
    for _ in range(draw(st.integers(0, 4))):
        k = draw(st.integers(0, nsurf - 1))
        on = [i for i, p in enumerate(sp_phase) if p == 'surf%d' % k]
        gas = [i for i, p in enumerate(sp_phase) if p == 'gas']
        a = draw(st.sampled_from(on))
        b = draw(st.sampled_from(on))
        g = draw(st.sampled_from(gas)) if draw(st.booleans()) else None
        r_ = {'react': [a] + ([g] if g is not None else []), 'prod': [b]}
        if r_ not in rx:         # (two identical reactions compare equal and are merged as duplicates by design)
            rx.append(r_)
    inter = []
    for _ in range(draw(st.integers(0, 3))):
        on = [i for i, p in enumerate(sp_phase) if p is not None and p.startswith('surf')]
        inter.append({'i': draw(st.sampled_from(on)), 'j': draw(st.sampled_from(on)), 'slope': draw(st.floats(-20, 20))})
    return {'order': order, 'sp_phase': sp_phase, 'rx': rx, 'inter': inter, 'sden': draw(gen.logf(1e-10, 1e-8)),
            'give': draw(st.sampled_from(['all', 'all', 'no-reactions', 'no-interactions', 'species-only']))}


def check_organize(case, ctx):
    from pmutt.empirical.nasa import Nasa
    import yaml
    from pmutt.io.omkm import organize_phases, write_thermo_yaml
    from pmutt.mixture.cov import PiecewiseCovEffect
    from pmutt.omkm.reaction import SurfaceReaction
    import pmutt.omkm.phase as omkm_phase
    species = []
    for i, p in enumerate(case['sp_phase']):
        a = [4.0, 1e-3, 0, 0, 0, -1000.0 * (i + 1), 5.0]
        species.append(Nasa(name='SP%d' % i, T_low=200., T_mid=1000., T_high=3000., a_low=a, a_high=a,
                            elements={ELEMS[i % 4]: 1}, phase=p, n_sites=1 if (p or '').startswith('surf') else None))
    rxns = [SurfaceReaction(reactants=[species[i] for i in r['react']], reactants_stoich=[1.0] * len(r['react']),
                            products=[species[i] for i in r['prod']], products_stoich=[1.0]) for r in case['rx']]
    inter = [PiecewiseCovEffect(name_i='SP%d' % d['i'], name_j='SP%d' % d['j'], intervals=[0.0], slopes=[d['slope']])
             for d in case['inter']]
    kind = {'gas': 'IdealGas', 'bulk': 'StoichSolid'}
    data = []
    for nm in case['order']:
        d = {'name': nm, 'phase_type': kind.get(nm, 'InteractingInterface')}
        if nm == 'bulk':
            d['density'] = 21.4
        if nm.startswith('surf'):
            d['site_density'] = case['sden']
        data.append(d)
    give = case['give']
    kw = {'species': species}
    if give in ('all', 'no-interactions') and rxns:
        kw['reactions'] = rxns
    if give in ('all', 'no-reactions') and inter:
        kw['interactions'] = inter
    ctx.nontrivial(len(case['order']) >= 3 and bool(rxns or inter))
    ctx.label('give:' + give, 'phases:%d' % len(case['order']))
    phases = organize_phases(data, **kw)
    if [type(p).__name__ for p in phases] != [kind.get(nm, 'InteractingInterface') for nm in case['order']] or \
            [p.name for p in phases] != case['order']:
        ctx.fail('C07.organize/phase-list', '%r for request %r' % ([(type(p).__name__, p.name) for p in phases], case['order']))
        return
    for ph in phases:
        want = ['SP%d' % i for i, p in enumerate(case['sp_phase']) if p == ph.name]
        if list(ph.species_names) != want:
            ctx.fail('C07.organize/species', '%s lists %r, species declaring it: %r' % (ph.name, list(ph.species_names), want))
            return
        if sorted(ph.elements) != sorted({ELEMS[i % 4] for i, p in enumerate(case['sp_phase']) if p == ph.name}):
            ctx.fail('C07.organize/elements', '%s: %r' % (ph.name, sorted(ph.elements)))
            return
        if ph.name.startswith('surf'):
            mine = {i for i, p in enumerate(case['sp_phase']) if p == ph.name}
            want_rx = [x for x, r in zip(rxns, case['rx']) if mine & set(r['react'] + r['prod'])] if 'reactions' in kw else []
            got_rx = list(ph.reactions or [])
            if [id(x) for x in got_rx] != [id(x) for x in want_rx]:
                ctx.fail('C07.organize/reactions', '%s holds %d reactions, %d involve its species' % (ph.name, len(got_rx), len(want_rx)))
                return
            want_it = [x for x, d in zip(inter, case['inter']) if d['i'] in mine] if 'interactions' in kw else []
            got_it = list(ph.interactions or [])
            if [id(x) for x in got_it] != [id(x) for x in want_it]:
                ctx.fail('C07.organize/interactions', '%s holds %d interactions, %d belong to its species' % (
                    ph.name, len(got_it), len(want_it)))
                return
            if ph.site_density != case['sden']:
                ctx.fail('C07.organize/site-density', repr(ph.site_density))
    placed = {id(x) for ph in phases for x in ph.species}
    for sp_, p in zip(species, case['sp_phase']):
        if (id(sp_) in placed) != (p in case['order']):
            ctx.fail('C07.organize/placement', '%s declares %r and is %s a phase' % (sp_.name, p, 'in' if id(sp_) in placed else 'in no'))
            return
    # the organised phases write a loadable thermo file that lists the same members
    members = [x for x in species if id(x) in placed]
    from pmutt.omkm.units import Units
    txt = write_thermo_yaml(phases=phases, species=members, reactions=kw.get('reactions'), lateral_interactions=kw.get('interactions'),
                            T=500., P=1., units=Units(quantity='mol', energy='kcal', act_energy='kcal/mol'))
    try:
        doc = yaml.safe_load(txt)
    except yaml.YAMLError as e:
        ctx.fail('C07.organize/yaml-does-not-load', str(e)[:200])
        return
    got = {p.get('name'): p.get('species') for p in (doc.get('phases') or [])}
    want = {ph.name: list(ph.species_names) for ph in phases}
    if got != want:
        ctx.fail('C07.organize/yaml:phase-members', '%r vs %r' % (got, want))


CLAUSES = [
    Clause('C07.phases', phase_history(), check_phases, 400, 4000,
           '1-4 coexisting IdealGas / StoichSolid / InteractingInterface objects (some default-constructed) over a pool of 8 species, '
           'followed by up to 12 operations append / extend / assign / remove / pop / clear / new phase; model = dict phase -> list of '
           'names; after every step every phase lists exactly its history\'s species and their elements, and the written phase '
           'entries say the same. Non-trivial = >= 2 phases alive and >= 1 removal', quick_shards=2),
    Clause('C07.reactor', reactor_case(), check_reactor, 600, 5000,
           'every dimensional reactor option independently omitted or given as Python int/float, numpy float64/float32/int64 or a '
           '"value unit" string; plain options (types, modes, tolerances, flags) omitted or given (Python / numpy numbers); multi_T / '
           'multi_P / multi_flow_rate lists (first value = base case); units None (SI) or a full Units choice; phases as list, dict or omitted. Oracle: the loaded YAML has a key for '
           'every supplied option with its value and unit and no key for an omitted one. Non-trivial = at least one numpy value and one '
           'string value', quick_shards=2),
    Clause('C07.model', model_case(), check_model, 300, 1500,
           '1-4 gas species, optional bulk phase, 1-2 interacting interfaces with vacant site + 1-4 adsorbates each (Nasa / Nasa9 / '
           'Shomate, occupancy 1-3), 0-8 surface reactions (adsorption with sticking coefficient, steps with explicit TS / BEP / none; '
           'ids automatic, user, mixed, or user ids inside the automatic range), 0-2 BEPs, 0-3 lateral interactions (named or not), '
           'random unit system, T, P, Motz-Wise. Oracles: yaml.safe_load succeeds and species / reactions / phases / BEPs / interactions '
           'carry the objects\' values in the requested units with unique ids; the CTI text parses with ast and executes against '
           'recording stubs of the CTI directives (no other name needed), and the recorded calls carry the same content (9 printed '
           'digits for coefficients, 6 for rate parameters), range-encoded members decode to the phase\'s reactions / interactions. '
           'Non-trivial = >= 2 phase kinds and a BEP-backed reaction or an interaction', quick_shards=6),
    Clause('C07.organize', organize_case(), check_organize, 300, 3000,
           'species that only carry a phase name (gas / bulk / 1-2 interfaces / None / a name nobody requested) in any order, 0-4 '
           'surface reactions, 0-3 interactions, phase requests in any order, reactions / interactions supplied or not: '
           'organize_phases returns the requested phases in the requested order and class, each listing exactly the species that '
           'declare it (order kept) and their elements, interfaces hold exactly the reactions / interactions touching their species '
           'and the site density; unplaced species stay unplaced; the thermo YAML of the result loads and lists the same members. '
           'Non-trivial = >= 3 phases and a reaction or interaction', quick_shards=2),
]
ASSUMPTIONS = ['rate parameters are recomputed with the documented calls (get_A(include_entropy=False), get_G_act / get_H_act) - C09 judges them',
               'CTI directives are executed against recording stubs; Cantera itself is not available offline']

"""C14 - reaction strings print/parse as inverses; balance check exact; formula parsing."""
import os
import shutil
import tempfile
from fractions import Fraction

from hypothesis import strategies as st

from vf.core import Clause
from vf.p12 import SYMBOLS

NAME_FIRST = 'ABCDEFGHIJKLMNOPQRSTUVWXYZabcdefghijklmnopqrstuvwxyz'
NAME_REST = NAME_FIRST + '0123456789()*_'
SYMS12 = [s for s in SYMBOLS if len(s) <= 2]

name_st = st.builds(lambda a, b: a + b, st.sampled_from(NAME_FIRST),
                    st.text(NAME_REST, min_size=0, max_size=8))
names_pool = st.lists(name_st, min_size=2, max_size=8, unique=True)

DELIMS = [('+', '='), ('+', '<=>'), ('.', '>>'), ('+', '>>'), (' + ', ' = '), ('&', '->'), (';', '|'),
          ('+', '=>'), (' . ', ' >> '), ('++', '==')]
spaces = st.sampled_from(['', '', ' ', '  ', '\t', ' \t '])


def coef_text():
    """decimal text of a coefficient (or '' = omitted)"""
    ints = st.integers(1, 24).map(str)
    big = st.integers(10, 999).map(str)
    dec = st.builds(lambda i, d: '%d.%s' % (i, d), st.integers(0, 120),
                    st.text('0123456789', min_size=1, max_size=4)).filter(lambda t: float(t) > 0)
    trail = st.integers(1, 30).map(lambda i: '%d.' % i)
    lead0 = st.integers(1, 9).map(lambda i: '0%d' % i)
    return st.one_of(st.just(''), st.just(''), ints, ints, dec, dec, big, trail, lead0)


def int_coef_text():
    return st.one_of(st.just(''), st.integers(1, 24).map(str), st.integers(10, 999).map(str))


def frac(text):
    return Fraction(text if not text.endswith('.') else text[:-1]) if text else Fraction(1)


# ---------------------------------------------------------------------------
# reference parser (written from the documented grammar; exact rationals)
def ref_parse_state(text, sd):
    names, coefs = [], []
    for tok in text.split(sd):
        tok = tok.strip()
        i = 0
        while i < len(tok) and tok[i].isdigit():
            i += 1
        if i > 0 and i < len(tok) and tok[i] == '.':
            j = i + 1
            while j < len(tok) and tok[j].isdigit():
                j += 1
            i = j
        ctext = tok[:i]
        name = tok[i:].strip()
        cf = frac(ctext) if ctext else Fraction(1)
        if name in names:
            coefs[names.index(name)] += cf
        else:
            names.append(name)
            coefs.append(cf)
    return names, coefs


def ref_parse(text, sd, rd):
    states = text.split(rd)
    out = [ref_parse_state(states[0], sd), ref_parse_state(states[-1], sd)]
    out.append(ref_parse_state(states[1], sd) if len(states) > 2 else None)
    return out


# ---------------------------------------------------------------------------
@st.composite
def parse_case(draw):
    pool = draw(names_pool)
    sd, rd = draw(st.sampled_from(DELIMS))
    ct = int_coef_text() if '.' in sd else coef_text()

    def state(nmax=4):
        n = draw(st.integers(1, nmax))
        items = []
        for _ in range(n):
            items.append({'c': draw(ct), 'sp': draw(st.sampled_from(['', '', ' ', '  '])),
                          'name': draw(st.sampled_from(pool)), 'l': draw(spaces), 'r': draw(spaces)})
        return items
    case = {'pool': pool, 'sd': sd, 'rd': rd, 'react': state(), 'prod': state(),
            'ts': draw(st.one_of(st.none(), st.none(), st.builds(lambda: None))) }
    case['ts'] = state(2) if draw(st.booleans()) and draw(st.booleans()) else None
    case['missing'] = draw(st.one_of(st.none(), st.none(), st.none(), st.sampled_from(['react', 'prod', 'ts'])))
    return case


def _text_of(items, sd):
    return sd.join('%s%s%s%s%s' % (it['l'], it['c'], it['sp'] if it['c'] else '', it['name'], it['r'])
                   for it in items)


def _delims_ok(pool, sd, rd):
    # the domain excludes names containing a delimiter (stripped form)
    for d in (sd.strip(), rd.strip()):
        if any(d in n for n in pool):
            return False
    return True


def check_parse(case, ctx):
    from pmutt.reaction import _parse_reaction, Reaction
    from pmutt.statmech import StatMech
    sd, rd = case['sd'], case['rd']
    if not _delims_ok(case['pool'], sd, rd):
        ctx.exclude('delimiter occurs inside a generated name')
        return
    parts = [_text_of(case['react'], sd)]
    if case['ts'] is not None:
        parts.append(_text_of(case['ts'], sd))
    parts.append(_text_of(case['prod'], sd))
    text = rd.join(parts)
    (rn, rc), (pn, pc), ts = ref_parse(text, sd, rd)
    # the reference itself must reproduce what was generated (sanity of the harness)
    gen = {}
    for it in case['react']:
        gen[it['name']] = gen.get(it['name'], 0) + frac(it['c'])
    assert dict(zip(rn, rc)) == gen, 'reference parser disagrees with the generated reactants'
    out = _parse_reaction(reaction_str=text, species_delimiter=sd, reaction_delimiter=rd)
    items = case['react'] + case['prod'] + (case['ts'] or [])
    repeated = len({it['name'] for it in case['react']}) < len(case['react']) or \
        len({it['name'] for it in case['prod']}) < len(case['prod'])
    decimal = any('.' in it['c'] for it in items)
    ctx.nontrivial(repeated or decimal or case['ts'] is not None or (sd, rd) != ('+', '='))
    if repeated:
        ctx.label('repeated-species')
    if decimal:
        ctx.label('decimal-coefficient')
    if any(len(it['c'].split('.')[0]) >= 2 and '.' in it['c'] for it in items):
        ctx.label('multi-digit-decimal')
    if case['ts'] is not None:
        ctx.label('ts')

    def cmp(tag, names, coefs, rnames, rcoefs):
        if list(names) != rnames:
            ctx.fail('C14.parse/names:%s' % tag, 'text %r: got %r expected %r' % (text, names, rnames))
            return
        ctx.close('C14.parse/coefficients:%s' % tag, coefs, [float(c_) for c_ in rcoefs], rtol=1e-12,
                  detail='text %r' % text)
    cmp('reactants', out[0], out[1], rn, rc)
    cmp('products', out[2], out[3], pn, pc)
    if ts is None:
        if out[4] is not None or out[5] is not None:
            ctx.fail('C14.parse/phantom-ts', 'text %r gave TS %r' % (text, out[4]))
    else:
        if out[4] is None:
            ctx.fail('C14.parse/lost-ts', 'text %r' % text)
        else:
            cmp('ts', out[4], out[5], ts[0], ts[1])

    # from_string: objects found by name; unknown names named in a KeyError
    species = {n: StatMech(name=n) for n in case['pool']}
    miss = case['missing']
    if miss == 'ts' and case['ts'] is None:
        miss = None
    if miss is None:
        rxn = Reaction.from_string(text, species, species_delimiter=sd, reaction_delimiter=rd)
        if [s.name for s in rxn.reactants] != rn or [s.name for s in rxn.products] != pn:
            ctx.fail('C14.parse/from_string-species', 'text %r' % text)
        if any(s is not species[s.name] for s in rxn.reactants + rxn.products):
            ctx.fail('C14.parse/from_string-identity', 'text %r' % text)
        if (rxn.transition_state is None) != (ts is None):
            ctx.fail('C14.parse/from_string-ts', 'text %r' % text)
        # the kinetic subclasses build the same reaction from the same text and keep the options they are given
        from pmutt.reaction import ChemkinReaction
        from pmutt.omkm.reaction import SurfaceReaction
        from pmutt.empirical.nasa import Nasa
        a7 = [4.0, 0.0, 0.0, 0.0, 0.0, -1000.0, 5.0]
        species = {n: Nasa(name=n, T_low=100., T_mid=1000., T_high=5000., a_low=a7, a_high=a7, phase='G') for n in case['pool']}
        rxn = Reaction.from_string(text, species, species_delimiter=sd, reaction_delimiter=rd)
        opts = {'is_adsorption': True, 'sticking_coeff': 0.25, 'beta': 0.5, 'notes': 'n1'}
        for cls, extra in ((ChemkinReaction, {}), (SurfaceReaction, {'id': 'r_0042', 'direction': 'cleavage', 'A': 3.0, 'Ea': 7.0,
                                                                     'use_motz_wise': True})):
            sub = cls.from_string(text, species, species_delimiter=sd, reaction_delimiter=rd, **opts, **extra)
            same = ([id(x) for x in sub.reactants] == [id(x) for x in rxn.reactants] and
                    [id(x) for x in sub.products] == [id(x) for x in rxn.products] and
                    list(sub.reactants_stoich) == list(rxn.reactants_stoich) and
                    list(sub.products_stoich) == list(rxn.products_stoich) and
                    (sub.transition_state is None) == (rxn.transition_state is None) and
                    (rxn.transition_state is None or
                     ([id(x) for x in sub.transition_state] == [id(x) for x in rxn.transition_state] and
                      list(sub.transition_state_stoich) == list(rxn.transition_state_stoich))))
            if not same:
                ctx.fail('C14.parse/subclass-from_string:%s' % cls.__name__, 'text %r: %s vs %s' % (
                    text, sub.to_string(), rxn.to_string()))
            lost = [k for k, v in dict(opts, **extra).items() if getattr(sub, k, '<absent>') != v]
            if lost:
                ctx.fail('C14.parse/subclass-from_string-options:%s' % cls.__name__, 'options not kept: %r' % (
                    {k: getattr(sub, k, '<absent>') for k in lost},))
    else:
        ctx.label('unknown-species')
        victim = {'react': rn, 'prod': pn, 'ts': ts[0] if ts else None}[miss][-1]
        sp2 = {k: v for k, v in species.items() if k != victim}
        try:
            Reaction.from_string(text, sp2, species_delimiter=sd, reaction_delimiter=rd)
        except KeyError as e:
            # the message names the species that is missing - outside any echo of the whole reaction string
            rest = str(e).replace(text, ' ')
            if victim not in rest:
                ctx.fail('C14.parse/keyerror-does-not-name', 'missing %r, message %r' % (victim, str(e)[:200]))
        else:
            ctx.fail('C14.parse/unknown-species-accepted', 'text %r missing %r' % (text, victim))


# ---------------------------------------------------------------------------
FORMATS = ['.0f', '.1f', '.2f', '.3f', '.4f', 'g']


@st.composite
def roundtrip_case(draw):
    pool = draw(names_pool)
    sd, rd = draw(st.sampled_from(DELIMS))
    fmt = draw(st.sampled_from(FORMATS))
    integer_only = '.' in sd
    coef = st.one_of(st.sampled_from([0.25, 0.5, 1.0, 1.5, 2.0, 3.0, 4.0, 12.5, 10.75, 100.25]),
                     st.floats(0.25, 4.0), st.integers(1, 30).map(float), st.floats(4.0, 400.0))
    if integer_only:
        coef = st.integers(1, 30).map(float)

    def state(nmax):
        n = draw(st.integers(1, nmax))
        return [[draw(st.sampled_from(pool)), draw(coef)] for _ in range(n)]
    return {'pool': pool, 'sd': sd, 'rd': rd, 'fmt': fmt, 'space': draw(st.booleans()),
            'react': state(4), 'prod': state(4),
            'ts': state(1) if draw(st.integers(0, 2)) == 0 else None,
            'cls': draw(st.sampled_from(['Reaction', 'Reaction', 'ring-file'])),
            # a RING file whose last reaction line is or is not terminated by a newline
            'eol': draw(st.sampled_from(['\n', '']))}


def _half_ulp(fmt, v):
    # the printer writes a coefficient that is np.isclose() to an integer as that integer
    # (the name alone for 1): that is its printed precision there
    if abs(v - round(v)) <= 1.0e-5 * abs(round(v)) + 1.0e-8:
        return 1.01e-5 * abs(round(v)) + 1.1e-8
    if fmt == 'g':
        return 5.1e-6 * abs(v) + 1e-12
    d = int(fmt[1])
    return 0.5 * 10.0 ** (-d) * (1 + 1e-9) + 1e-12


def check_roundtrip(case, ctx):
    from pmutt.reaction import Reaction
    from pmutt.statmech import StatMech
    sd, rd, fmt = case['sd'], case['rd'], case['fmt']
    if not _delims_ok(case['pool'], sd, rd):
        ctx.exclude('delimiter occurs inside a generated name')
        return
    if '.' in sd and fmt != '.0f' and False:
        pass
    species = {n: StatMech(name=n) for n in case['pool']}

    def objs(items):
        return [species[n] for n, _ in items], [c_ for _, c_ in items]
    r, rs = objs(case['react'])
    p, ps = objs(case['prod'])
    t, ts = objs(case['ts']) if case['ts'] else (None, None)
    rxn = Reaction(reactants=r, reactants_stoich=rs, products=p, products_stoich=ps,
                   transition_state=t, transition_state_stoich=ts)
    text = rxn.to_string(species_delimiter=sd, reaction_delimiter=rd, stoich_format=fmt,
                         stoich_space=case['space'])
    nontriv = case['ts'] is not None or (sd, rd) != ('+', '=') or \
        any(c_ != int(c_) for _, c_ in case['react'] + case['prod'])
    ctx.nontrivial(nontriv)
    ctx.label('fmt:' + fmt)
    if case['cls'] == 'ring-file':
        from pmutt.io.ring import read_reactions
        d = tempfile.mkdtemp(prefix='vf-c14-')
        try:
            fn = os.path.join(d, 'rxn.txt')
            with open(fn, 'w') as f:
                f.write('# header without the delimiter\n%s%s' % (text, case.get('eol', '\n')))
            ctx.label('ring-eol:%r' % case.get('eol', '\n'))
            back = read_reactions(fn, species, species_delimiter=sd, reaction_delimiter=rd)
            rx2 = back.reactions[0]
            if len(back.reactions) != 1:
                ctx.fail('C14.roundtrip/ring-count', '%d reactions read' % len(back.reactions))
        finally:
            shutil.rmtree(d, ignore_errors=True)
        ctx.label('ring-file')
    else:
        rx2 = Reaction.from_string(text, species, species_delimiter=sd, reaction_delimiter=rd)

    def merged(items):
        names, tot = [], {}
        for n, c_ in items:
            if n not in tot:
                names.append(n)
                tot[n] = 0.0
            tot[n] += c_
        return names, tot

    def cmp(tag, items, sp2, st2):
        names, tot = merged(items)
        if [s.name for s in sp2] != names or any(s is not species[s.name] for s in sp2):
            ctx.fail('C14.roundtrip/species:%s' % tag, 'text %r: %r vs %r' % (text, [s.name for s in sp2], names))
            return
        # each printed coefficient is within half an ulp of the format; merged species sum their errors
        cnt = {}
        for n, c_ in items:
            cnt[n] = cnt.get(n, 0.0) + _half_ulp(fmt, c_)
        for s, c2 in zip(sp2, st2):
            if abs(c2 - tot[s.name]) > cnt[s.name]:
                ctx.fail('C14.roundtrip/coefficient:%s' % tag, 'text %r: %s %r vs %r (fmt %s)' % (
                    text, s.name, c2, tot[s.name], fmt))
    cmp('reactants', case['react'], rx2.reactants, rx2.reactants_stoich)
    cmp('products', case['prod'], rx2.products, rx2.products_stoich)
    if case['ts'] is None:
        if rx2.transition_state is not None:
            ctx.fail('C14.roundtrip/phantom-ts', 'text %r' % text)
    elif rx2.transition_state is None:
        ctx.fail('C14.roundtrip/lost-ts', 'text %r' % text)
    else:
        cmp('ts', case['ts'], rx2.transition_state, rx2.transition_state_stoich)
    # print o parse o print = print
    text2 = rx2.to_string(species_delimiter=sd, reaction_delimiter=rd, stoich_format=fmt,
                          stoich_space=case['space'])
    rx3 = Reaction.from_string(text2, species, species_delimiter=sd, reaction_delimiter=rd)
    text3 = rx3.to_string(species_delimiter=sd, reaction_delimiter=rd, stoich_format=fmt,
                          stoich_space=case['space'])
    # a second print/parse cycle stays within the printed precision of the first (the strings themselves may differ:
    # 101.99885 -> '101.999' -> isclose to 102 -> '102')
    for tag, a2, s2, a3, s3 in (('reactants', rx2.reactants, rx2.reactants_stoich, rx3.reactants, rx3.reactants_stoich),
                                 ('products', rx2.products, rx2.products_stoich, rx3.products, rx3.products_stoich)):
        if [x.name for x in a2] != [x.name for x in a3]:
            ctx.fail('C14.roundtrip/second-cycle-species:%s' % tag, '%r -> %r -> %r' % (text, text2, text3))
        else:
            for c2, c3 in zip(s2, s3):
                if abs(c2 - c3) > _half_ulp(fmt, c2):
                    ctx.fail('C14.roundtrip/second-cycle-coefficient:%s' % tag, '%r -> %r -> %r' % (text, text2, text3))


# ---------------------------------------------------------------------------
dec_count = st.one_of(st.integers(1, 12).map(str), st.integers(1, 12).map(str),
                      st.sampled_from(['0.5', '1.5', '0.25', '2.5', '0.1', '0.2', '0.3', '1.1', '0.7']))
dec_coef = st.one_of(st.integers(1, 6).map(str),
                     st.sampled_from(['0.1', '0.2', '0.3', '0.5', '0.25', '1.5', '0.7', '1.1', '2.2', '0.6', '0.125',
                                      '0.05', '3.3']),
                     st.builds(lambda i, d: '%d.%s' % (i, d), st.integers(0, 9), st.text('0123456789', min_size=1, max_size=3))
                     .filter(lambda t: float(t) > 0))


@st.composite
def balance_case(draw):
    elems = draw(st.lists(st.sampled_from(SYMS12[:40]), min_size=1, max_size=4, unique=True))
    nsp = draw(st.integers(1, 4))
    species = []
    for i in range(nsp):
        comp = {}
        for e in elems:
            if draw(st.integers(0, 3)) > 0:
                comp[e] = draw(dec_count)
        if not comp:
            comp[elems[0]] = draw(dec_count)
        if draw(st.integers(0, 5)) == 0:
            comp[draw(st.sampled_from(SYMS12[40:60]))] = '0'   # explicit zero-count entry
        species.append(comp)
    kind = draw(st.sampled_from(['split', 'split', 'synth', 'synth', 'synth-ts']))
    react = [[draw(st.integers(0, nsp - 1)), draw(dec_coef)] for _ in range(draw(st.integers(1, 4)))]
    perturb = draw(st.sampled_from([None, None, 'coef', 'count', 'extra-element', 'ts-coef', 'swap-sides']))
    return {'elems': elems, 'species': species, 'kind': kind, 'react': react,
            'div': draw(st.sampled_from(['1', '2', '0.5', '0.25', '4', '1', '5', '0.2'])),
            'nsplit': draw(st.integers(1, 3)), 'perturb': perturb,
            'amount': draw(st.sampled_from(['1', '0.001', '0.5', '2', '0.00001'])),
            'which': draw(st.integers(0, 7))}


def _dec(fr):
    """exact decimal text of a Fraction with a 2^a 5^b denominator"""
    from decimal import Decimal, getcontext
    getcontext().prec = 60
    d = Decimal(fr.numerator) / Decimal(fr.denominator)
    assert Fraction(str(d)) == fr, 'not a finite decimal: %r' % fr
    s = format(d, 'f')
    return s


def _totals(side):
    """side = list of (composition dict text->Fraction, coefficient Fraction)"""
    tot = {}
    for comp, cf in side:
        for e, n in comp.items():
            tot[e] = tot.get(e, Fraction(0)) + Fraction(n) * cf
    return {e: v for e, v in tot.items() if v != 0}


def check_balance(case, ctx):
    from pmutt.reaction import Reaction
    from pmutt.statmech import StatMech
    sp_comp = [dict(c_) for c_ in case['species']]
    react = [(sp_comp[i], Fraction(cf)) for i, cf in case['react']]
    rt = _totals(react)
    # products that balance by construction
    if case['kind'] == 'split':
        # same species, coefficients re-partitioned: sum_i a_i X_i  ->  per species total split in nsplit parts
        per = {}
        for i, cf in case['react']:
            per[i] = per.get(i, Fraction(0)) + Fraction(cf)
        prod = []
        for i, tot in per.items():
            k = case['nsplit']
            part = tot / k
            try:
                _dec(part)
            except AssertionError:
                k, part = 1, tot
            prod += [(sp_comp[i], part)] * k
        new_species = []
    else:
        cp = Fraction(case['div'])
        comp = {e: _dec(v / cp) for e, v in rt.items()} if all(
            (v / cp).denominator in _FIN for v in rt.values()) else None
        if comp is None:
            cp = Fraction(1)
            comp = {e: _dec(v) for e, v in rt.items()}
        new_species = [comp]
        prod = [(comp, cp)]
    ts = None
    if case['kind'] == 'synth-ts':
        tcomp = {e: _dec(v) for e, v in rt.items()}
        ts = [(tcomp, Fraction(1))]
    # optional perturbation -> unbalanced by >= 1e-6 relative
    p = case['perturb']
    amt = Fraction(case['amount'])
    if p == 'coef':
        j = case['which'] % len(prod)
        prod = list(prod)
        prod[j] = (prod[j][0], prod[j][1] + amt)
    elif p == 'count':
        j = case['which'] % len(prod)
        comp = dict(prod[j][0])
        e = sorted(comp)[case['which'] % len(comp)]
        comp[e] = _dec(Fraction(comp[e]) + amt)
        prod = list(prod)
        prod[j] = (comp, prod[j][1])
    elif p == 'extra-element':
        j = case['which'] % len(prod)
        comp = dict(prod[j][0])
        comp['Xe'] = '1'
        prod = list(prod)
        prod[j] = (comp, prod[j][1])
    elif p == 'ts-coef':
        if ts is None:
            p = None
        else:
            ts = [(ts[0][0], ts[0][1] + amt)]
    elif p == 'swap-sides':
        # surplus on the reactant side instead of the product side
        j = case['which'] % len(react)
        react = list(react)
        react[j] = (react[j][0], react[j][1] + amt)
    rt, pt = _totals(react), _totals(prod)
    tt = _totals(ts) if ts else None
    balanced = rt == pt and (tt is None or tt == rt)
    if not balanced:
        # leave the band (0, 1e-6) un-generated
        def gap(a, b):
            keys = set(a) | set(b)
            return max(abs(a.get(k, 0) - b.get(k, 0)) / max(abs(a.get(k, 0)), abs(b.get(k, 0))) for k in keys)
        g = gap(rt, pt) if rt != pt else gap(rt, tt)
        if g < Fraction(1, 10 ** 6):
            ctx.exclude('imbalance inside (0, 1e-6)')
            return

    def mk(side, tag):
        objs, st_ = [], []
        for k, (comp, cf) in enumerate(side):
            el = {e: (int(n) if '.' not in n else float(n)) for e, n in comp.items()}
            objs.append(StatMech(name='%s%d' % (tag, k), elements=el))
            st_.append(float(cf))
        return objs, st_
    r, rs = mk(react, 'R')
    pr, ps = mk(prod, 'P')
    t, ts_ = mk(ts, 'T') if ts else (None, None)
    rxn = Reaction(reactants=r, reactants_stoich=rs, products=pr, products_stoich=ps,
                   transition_state=t, transition_state_stoich=ts_)
    fractional = any(cf.denominator != 1 for _, cf in react + prod)
    ctx.nontrivial(fractional or ts is not None)
    ctx.label('balanced' if balanced else 'unbalanced:%s' % p)
    if fractional:
        ctx.label('fractional')
    comps_before = [dict(s_.elements) for s_ in r + pr + (t or [])]
    try:
        rxn.check_element_balance()
        accepted = True
    except ValueError:
        accepted = False
    # the check is a question, not an operation: asked again it answers the same, and the species' compositions are untouched
    try:
        rxn.check_element_balance()
        again = True
    except ValueError:
        again = False
    if again != accepted:
        ctx.fail('C14.balance/second-check-answers-differently', 'first %s, second %s: reactants %r products %r' % (
            'accepts' if accepted else 'rejects', 'accepts' if again else 'rejects',
            [(c_, str(f)) for c_, f in react], [(c_, str(f)) for c_, f in prod]))
    if [dict(s_.elements) for s_ in r + pr + (t or [])] != comps_before:
        ctx.fail('C14.balance/check-modifies-species-composition', '%r -> %r' % (
            comps_before, [dict(s_.elements) for s_ in r + pr + (t or [])]))
    if balanced and not accepted:
        ctx.fail('C14.balance/balanced-rejected', 'reactants %r products %r ts %r' % (
            [(c_, str(f)) for c_, f in react], [(c_, str(f)) for c_, f in prod], ts))
    if (not balanced) and accepted:
        ctx.fail('C14.balance/unbalanced-accepted:%s' % ('ts' if rt == pt else 'products'),
                 'reactants %r products %r ts %r' % (
                     [(c_, str(f)) for c_, f in react], [(c_, str(f)) for c_, f in prod], ts))


_FIN = set()
for _a in range(0, 40):
    for _b in range(0, 20):
        _v = 2 ** _a * 5 ** _b
        if _v < 10 ** 30:
            _FIN.add(_v)


# ---------------------------------------------------------------------------
@st.composite
def formula_case(draw):
    n = draw(st.integers(1, 8))
    toks = []
    for _ in range(n):
        sym = draw(st.sampled_from(SYMS12))
        cnt = draw(st.one_of(st.just(''), st.integers(1, 9).map(str), st.integers(2, 999).map(str)))
        toks.append([sym, cnt])
    if draw(st.booleans()) and n >= 2:
        toks.append(list(toks[0][:1]) + [draw(st.one_of(st.just(''), st.integers(1, 99).map(str)))])
    return {'tokens': toks}


def check_formula(case, ctx):
    import pmutt
    text = ''.join(s + c_ for s, c_ in case['tokens'])
    expect = {}
    for s, c_ in case['tokens']:
        expect[s] = expect.get(s, 0) + (int(c_) if c_ else 1)
    got = pmutt.parse_formula(text)
    syms = [s for s, _ in case['tokens']]
    ctx.nontrivial(len(set(syms)) < len(syms) or any(c_ == '' for _, c_ in case['tokens']))
    if len(set(syms)) < len(syms):
        ctx.label('repeated-symbol')
    if dict(got) != expect:
        ctx.fail('C14.formula/counts', '%r -> %r expected %r' % (text, dict(got), expect))
    if any(not isinstance(v, int) for v in got.values()):
        ctx.fail('C14.formula/non-integer-count', '%r -> %r' % (text, dict(got)))
    # the caller owns the result: editing it must not change what the next parse of the same text returns
    try:
        for k_ in list(got):
            got[k_] += 7
        got['Zz'] = 1
    except TypeError:
        pass        # an immutable mapping cannot be edited at all
    again = pmutt.parse_formula(text)
    if dict(again) != expect:
        ctx.fail('C14.formula/parse-depends-on-history', '%r parsed again after the caller edited the first result -> %r '
                 'expected %r' % (text, dict(again), expect))
    if all(s_ in pmutt.constants.atomic_weight for s_ in expect):     # (the weight table itself is C12's business)
        ctx.close('C14.formula/molecular-weight-after-edit', pmutt.get_molecular_weight(text),
                  sum(n_ * pmutt.constants.atomic_weight[s_] for s_, n_ in expect.items()), rtol=1e-12)


CLAUSES = [
    Clause('C14.parse', parse_case(), check_parse, 1500, 10000,
           'names = letter + [letters digits ()*_]{0,8}; 1-4 species per side (duplicates allowed), coefficient '
           'omitted / integer / decimal (multi-digit, trailing dot, leading zero), optional 1-2 species TS state, '
           'random blanks, 10 delimiter pairs incl. custom and RING; differential against a reference parser in exact '
           'rationals; unknown names must raise KeyError naming them. Non-trivial = repeated species, decimal, TS or '
           'non-default delimiter',
           examples=[{'pool': ['H2', 'O2', 'H2O'], 'sd': '+', 'rd': '=', 'ts': None, 'missing': None,
                      'react': [{'c': '12.5', 'sp': '', 'name': 'H2', 'l': '', 'r': ' '},
                                {'c': '0.5', 'sp': ' ', 'name': 'O2', 'l': ' ', 'r': ''}],
                      'prod': [{'c': '', 'sp': '', 'name': 'H2O', 'l': ' ', 'r': ''}]}]),
    Clause('C14.roundtrip', roundtrip_case(), check_roundtrip, 1500, 10000,
           'Reaction objects over a name pool, coefficients 0.25-400 (integers only with the RING "." delimiter), '
           'every stoich_format x stoich_space x delimiter pair, optional TS; from_string(to_string(r)) gives the same '
           'species objects and coefficients within half an ulp of the format (merged duplicates: summed), a second '
           'print/parse cycle stays within the printed precision; one third go through a RING file and pmutt.io.ring.read_reactions'),
    Clause('C14.balance', balance_case(), check_balance, 2000, 15000,
           'compositions (integer or finite-decimal counts, optional zero entries) and decimal coefficients; products '
           'constructed to balance exactly in rationals (re-partitioned species or a synthesised product/TS), then '
           'optionally perturbed (coefficient, count, extra element, TS, reactant surplus) by >= 1e-6 relative; exact '
           'rational decision vs check_element_balance. Non-trivial = fractional coefficient or TS'),
    Clause('C14.formula', formula_case(), check_formula, 1500, 10000,
           '1-9 (symbol, count) tokens from all one/two-letter element symbols, counts omitted or 1-999, repeats; '
           'reference = the token list itself; the result is edited and the text parsed again'),
]
# coverage-guided campaigns of the thorough tier: (clause, executions per worker, workers)
FUZZ = [('C14.parse', 15000, 3), ('C14.roundtrip', 8000, 2)]
ASSUMPTIONS = ['names never contain a delimiter (cases where a custom delimiter occurs inside a drawn name are excluded and counted)',
               'imbalances strictly between 0 and 1e-6 relative are not generated']

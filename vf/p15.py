"""C15 - the spreadsheet reader maps rows and special columns as documented."""
import os
import shutil
import tempfile

import numpy as np
from hypothesis import strategies as st

from vf.core import Clause

ORDINARY = ['name', 'phase', 'T_low', 'T_high', 'notes', 'potentialenergy', 'spin', 'symmetrynumber', 'geometry',
            'molecular_weight', 'n_degrees', 'smiles', 'beta', 'is_adsorption', 'site_density', 'reaction', 'Comments',
            'units', 'A', 'sticking_coeff']
FORMULAS = ['H2O', 'CH4', 'CH3CH2OH', 'NH3', 'CO2', 'Pt', 'C2H6']
PRESETS = ['IdealGas', 'idealgas', 'harmonic', 'Electronic', 'placeholder', 'constant']
MODEL_VALUES = {'trans_model': ['FreeTrans', 'EmptyMode', 'emptymode'],
                'vib_model': ['HarmonicVib', 'QRRHOVib', 'EinsteinVib', 'DebyeVib', 'EmptyMode'],
                'rot_model': ['RigidRotor', 'EmptyMode'],
                'elec_model': ['GroundStateElec', 'LSR', 'ExtendedLSR', 'EmptyMode'],
                'nucl_model': ['EmptyNucl', 'EmptyMode']}
STRINGS = ['G', 'S', 'gas', 'Pt(S)', 'H2O', 'CO2(S)', 'linear', 'nonlinear', 'monatomic', 'see ref 3', 'CH4 + * = CH4*', 'yes',
           '12', 'a b', 'x']
NA_LIKE = {'', '#N/A', '#N/A N/A', '#NA', '-1.#IND', '-1.#QNAN', '-NaN', '-nan', '1.#IND', '1.#QNAN', '<NA>', 'N/A', 'NA',
           'NULL', 'NaN', 'None', 'n/a', 'nan', 'null'}
pad = st.sampled_from(['', '', ' ', '  '])
num = st.one_of(st.integers(-5, 3000), st.floats(-500, 5000).map(lambda v: round(v, 6)), st.sampled_from([0, 1, 2.5, 1e-3]))


@st.composite
def workbook(draw):
    cols = []
    for nm in draw(st.lists(st.sampled_from(ORDINARY), min_size=1, max_size=6, unique=True)):
        cols.append({'kind': 'ordinary', 'header': nm})
    for e in draw(st.lists(st.sampled_from(['H', 'C', 'O', 'N', 'Pt']), max_size=3, unique=True)):
        cols.append({'kind': 'element', 'header': 'element.%s' % e})
    if draw(st.booleans()):
        cols.append({'kind': 'formula', 'header': 'formula'})
    for _ in range(draw(st.sampled_from([0, 0, 1, 3, 8, 30]))):
        cols.append({'kind': 'vib', 'header': 'vib_wavenumber'})
    for _ in range(draw(st.integers(0, 3))):
        cols.append({'kind': 'rot', 'header': 'rot_temperature'})
    for nm in draw(st.lists(st.sampled_from(['T_data', 'shifts', 'temperatures', 'labels', 'T_ref2', 'site1', 'x0', 'v1_5']), max_size=2, unique=True)):
        k = draw(st.integers(1, 3))
        numbered = draw(st.booleans())
        for i in range(k):
            cols.append({'kind': 'list', 'header': 'list.%s%s' % (nm, '.%d' % i if numbered else '')})
    for nm in draw(st.lists(st.sampled_from(['misc', 'kwargs_d']), max_size=1)):
        for key in draw(st.lists(st.sampled_from(['alpha', 'beta', 'k1', 'Pt']), min_size=1, max_size=3, unique=True)):
            cols.append({'kind': 'dict', 'header': 'dict.%s.%s' % (nm, key)})
    for which in draw(st.lists(st.sampled_from(['a_low', 'a_high']), max_size=2, unique=True)):
        for i in draw(st.lists(st.integers(0, 6), min_size=1, max_size=7, unique=True)):
            cols.append({'kind': 'nasa', 'header': 'nasa.%s.%d' % (which, i)})
    if draw(st.booleans()):
        cols.append({'kind': 'preset', 'header': 'statmech_model'})
    for mk in draw(st.lists(st.sampled_from(sorted(MODEL_VALUES)), max_size=3, unique=True)):
        cols.append({'kind': 'mode', 'header': mk})
    cols = draw(st.permutations(cols))
    # duplicate plain headers would be renamed by the spreadsheet layer: only the repeatable special headers repeat
    for c in cols:
        c['pad_l'], c['pad_r'] = draw(pad), draw(pad)
        if c['kind'] == 'list' and c['header'].count('.') == 1:
            # repeated un-numbered list headers are told apart by the spreadsheet layer's own '.1' suffix: no padding there
            c['pad_l'] = c['pad_r'] = ''
    nrows = draw(st.one_of(st.integers(1, 6), st.integers(1, 6), st.integers(7, 60)))
    p_empty = draw(st.sampled_from([0.0, 0.2, 0.5, 0.8]))
    rows = []
    for r in range(nrows):
        row = []
        for c in cols:
            if draw(st.floats(0, 1)) < p_empty:
                row.append(None)
                continue
            k = c['kind']
            if k == 'ordinary':
                if draw(st.booleans()):
                    row.append(draw(num))
                else:
                    row.append(draw(pad) + draw(st.sampled_from(STRINGS)) + draw(pad))
            elif k == 'formula':
                row.append(draw(st.sampled_from(FORMULAS)))
            elif k == 'preset':
                row.append(draw(st.sampled_from(PRESETS)) + draw(pad))
            elif k == 'mode':
                row.append(draw(st.sampled_from(MODEL_VALUES[c['header']])))
            elif k in ('list', 'dict') and draw(st.booleans()):
                row.append(draw(st.sampled_from(STRINGS)))
            else:
                row.append(draw(num))
        if 0 < r < nrows - 1 and draw(st.integers(0, 7)) == 0:
            row = [None] * len(cols)       # a completely empty row between data rows still is a data row (record {})
        elif all(v is None for v in row):
            j = draw(st.integers(0, len(cols) - 1))
            k = cols[j]['kind']
            row[j] = {'formula': 'H2O', 'preset': 'harmonic', 'mode': MODEL_VALUES.get(cols[j]['header'], ['x'])[0]}.get(k, 1.5)
        rows.append(row)
    return {'cols': [dict(c) for c in cols], 'rows': rows, 'comment_row': draw(st.booleans()),
            'sheet': draw(st.sampled_from(['Sheet1', 'species', 'refs 2', 'Data-3']))}


def expected_record(cols, row):
    """reference mapping of one generated row (walks the columns in sheet order)"""
    import pmutt
    from pmutt.statmech import EmptyMode, StatMech, presets, trans, vib, rot, elec, nucl, lsr
    modules = {'trans_model': [trans], 'vib_model': [vib], 'rot_model': [rot], 'elec_model': [elec, lsr], 'nucl_model': [nucl]}
    out = {}
    for c, v in zip(cols, row):
        if v is None:
            continue
        if isinstance(v, str):
            v = v.strip()
        h = c['header']
        k = c['kind']
        if k == 'ordinary':
            out[h] = v
        elif k == 'element':
            out.setdefault('elements', {})[h.split('.')[-1]] = v
        elif k == 'formula':
            el = {}
            i = 0
            # own tokenizer: capital letter, optional lowercase letters, optional digits
            while i < len(v):
                j = i + 1
                while j < len(v) and v[j].islower():
                    j += 1
                sym = v[i:j]
                m = j
                while m < len(v) and v[m].isdigit():
                    m += 1
                el[sym] = el.get(sym, 0) + (int(v[j:m]) if m > j else 1)
                i = m
            out['elements'] = el
        elif k == 'vib':
            out.setdefault('vib_wavenumbers', []).append(v)
        elif k == 'rot':
            out.setdefault('rot_temperatures', []).append(v)
        elif k == 'list':
            parts = h.split('.')
            out.setdefault(parts[1], []).append(v)
        elif k == 'dict':
            _, dn, key = h.split('.')
            out.setdefault(dn, {})[key] = v
        elif k == 'nasa':
            _, which, idx = h.split('.')
            if which not in out:
                out[which] = np.zeros(7)
            out[which][int(idx)] = v
        elif k == 'preset':
            out['model'] = StatMech
            for key, val in presets[v.lower()].items():
                if key not in out:
                    out[key] = val
        elif k == 'mode':
            cls = None
            for mod in modules[h]:
                cls = getattr(mod, v, None) or cls
            if cls is None and v.lower() == 'emptymode':
                cls = EmptyMode
            out[h] = cls
            out['model'] = StatMech
    return out


def same(a, b):
    if isinstance(a, dict) and isinstance(b, dict):
        return set(a) == set(b) and all(same(a[k], b[k]) for k in a)
    if isinstance(a, (list, tuple, np.ndarray)) and isinstance(b, (list, tuple, np.ndarray)):
        return len(a) == len(b) and all(same(x, y) for x, y in zip(a, b))
    if isinstance(a, str) or isinstance(b, str):
        if isinstance(a, str) and isinstance(b, str):
            return a == b
        # the spreadsheet layer may hand a numeric-looking text cell back as a number
        try:
            return float(a) == float(b)
        except (TypeError, ValueError):
            return False
    if isinstance(a, type) or isinstance(b, type):
        return a is b
    try:
        return float(a) == float(b) or abs(float(a) - float(b)) <= 1e-12 * max(abs(float(a)), abs(float(b)))
    except (TypeError, ValueError):
        return a == b


def first_difference(exp, got):
    for k in sorted(set(exp) | set(got), key=str):
        if k not in got:
            return 'missing', k, exp[k], None
        if k not in exp:
            return 'extra', k, None, got[k]
        if not same(exp[k], got[k]):
            return 'value', k, exp[k], got[k]
    return None


def write_book(path, case, rows):
    import openpyxl
    wb = openpyxl.Workbook()
    ws = wb.active
    ws.title = case['sheet']
    ws.append([c['pad_l'] + c['header'] + c['pad_r'] for c in case['cols']])
    if case['comment_row']:
        ws.append(['description of %s' % c['header'] for c in case['cols']])
    for row in rows:
        ws.append(list(row))
    wb.save(path)


def check_book(case, ctx):
    from pmutt.io.excel import read_excel
    cols, rows = case['cols'], case['rows']
    kinds = {c['kind'] for c in cols} - {'ordinary'}
    patterns = {tuple(v is None for v in r) for r in rows}
    ctx.nontrivial(len(rows) >= 2 and len(patterns) >= 2 and len(kinds) >= 2)
    for k in sorted(kinds):
        ctx.label('col:' + k)
    ctx.label('comment-row' if case['comment_row'] else 'no-comment-row')
    d = tempfile.mkdtemp(prefix='vf-c15-')
    try:
        for variant, rr in (('as-written', rows), ('reversed', rows[::-1])):
            if variant == 'reversed' and len(rows) < 2:
                continue
            fn = os.path.join(d, '%s.xlsx' % variant)
            write_book(fn, case, rr)
            try:
                if case['comment_row'] and variant == 'reversed':
                    got = read_excel(io=fn, sheet_name=case['sheet'])      # documented default: row 1 holds comments
                else:
                    got = read_excel(io=fn, skiprows=[1] if case['comment_row'] else [], header=0, sheet_name=case['sheet'])
            except Exception as e:
                from vf.core import exc_site
                if exc_site(e) is None:
                    raise
                vals = sorted({str(v) for r in rr for c, v in zip(cols, r) if c['kind'] == 'mode' and v})
                ctx.fail('C15.book/raises:%s@%s' % (type(e).__name__, exc_site(e)), '%s (mode cells %r)' % (str(e)[:120], vals))
                return
            if len(got) != len(rr):
                ctx.fail('C15.book/row-count', '%d data rows, %d records (%s)' % (len(rr), len(got), variant))
                return
            for i, (row, rec) in enumerate(zip(rr, got)):
                exp = expected_record(cols, row)
                df = first_difference(exp, rec)
                if df:
                    kind, key, e_, g_ = df
                    ck = next((c['kind'] for c in cols if key in (c['header'], c['header'].split('.')[-1])), None)
                    special = {'elements': 'elements', 'vib_wavenumbers': 'vib', 'rot_temperatures': 'rot', 'a_low': 'nasa',
                               'a_high': 'nasa', 'model': 'model'}.get(key, ck or ('list-or-dict' if not isinstance(key, str) or
                                                                                    key not in ORDINARY else 'ordinary'))
                    ctx.fail('C15.book/record:%s:%s' % (kind, special), '%s row %d key %r: expected %r got %r' % (
                        variant, i, key, e_, g_))
                    return
    finally:
        shutil.rmtree(d, ignore_errors=True)


CLAUSES = [
    Clause('C15.book', workbook(), check_book, 200, 800,
           'workbooks written with openpyxl: 1-60 data rows, optional comment row, random subset and order of ordinary columns '
           '(names free of the special substrings) and special columns (element.X, formula, vib_wavenumber x0-30, rot_temperature '
           'x0-3, list.name[.i], dict.name.key, nasa.a_low/a_high.i, statmech_model presets, per-mode model class names), padded '
           'headers and string cells, numeric / string / empty cells (empty-cell probability 0-0.8; the first and last row keep one cell, rows in between may be completely empty), any '
           'sheet name; read as written and with the rows reversed (second call in the same process). Oracle: reference mapping from '
           'the generated grid to the expected list of records (one per row, in order, exactly the non-empty cells). Non-trivial = '
           '>= 2 rows with different empty-cell patterns and >= 2 kinds of special column', quick_shards=6),
]
ASSUMPTIONS = ['cells that the spreadsheet layer itself treats as missing (blank-only strings, NA / NULL / nan spellings) are not generated',
               'the preset table pmutt.statmech.presets is taken as data; plain headers are unique (duplicates are renamed by pandas)']

"""C16 - equilibrium compositions conserve atoms and minimise Gibbs energy."""
import math
import os
import shutil
import tempfile
import warnings

import numpy as np
from hypothesis import strategies as st

from vf.core import Clause, exc_site

ELEMS = ['H', 'C', 'O', 'N']
CP = 4.0


@st.composite
def network_case(draw):
    ne = draw(st.integers(1, 4))
    elems = ELEMS[:ne]
    ns = draw(st.integers(2, 12))
    comps = []
    for i in range(ns):
        comp = [draw(st.integers(0, 4)) for _ in elems]
        if sum(comp) == 0:
            comp[draw(st.integers(0, ne - 1))] = draw(st.integers(1, 4))
        comps.append(comp)
    span = draw(st.sampled_from([5.0, 20.0, 60.0]))
    g = [draw(st.floats(-span / 2, span / 2)) for _ in range(ns)]
    feed = [draw(st.one_of(st.just(0.0), st.floats(0.01, 10.0), st.integers(1, 5).map(float))) for _ in range(ns)]
    return {'elements': elems, 'comps': comps, 'g': g, 'feed': feed, 'T': draw(st.floats(300, 2500)),
            'P': draw(st.floats(math.log(0.01), math.log(100)).map(lambda v: float(math.exp(v)))),
            'T2': draw(st.floats(300, 2500)), 'P2': draw(st.floats(0.01, 100)),
            'perm': draw(st.permutations(list(range(ns)))), 'route': draw(st.sampled_from(['list', 'dict', 'list', 'thermdat']))}


def _species(case):
    from pmutt.empirical.nasa import Nasa
    T = case['T']
    out = []
    for i, (comp, g) in enumerate(zip(case['comps'], case['g'])):
        a6 = T * (g - CP + CP * math.log(T))
        a = [CP, 0.0, 0.0, 0.0, 0.0, a6, 0.0]
        # zero-count entries are legal in a composition dictionary (kept for every second species)
        el = {e: n for e, n in zip(case['elements'], comp) if n > 0 or (i % 2 == 0 and case['route'] != 'thermdat')}
        out.append(Nasa(name='S%02d' % i, T_low=200.0, T_mid=1000.0, T_high=3500.0, a_low=a, a_high=a, elements=el, phase='G'))
    return out


def _feed(case):
    """non-negative feed containing every element that occurs in the network"""
    A = np.array(case['comps'], dtype=float)
    feed = np.array(case['feed'], dtype=float)
    for e in range(A.shape[1]):
        if A[:, e].sum() > 0 and feed @ A[:, e] <= 0:
            j = int(np.argmax(A[:, e] > 0))
            feed[j] += 1.0
    return feed


def reference_minimum(A, b, g, lnP):
    """Element-potential (dual) Newton iteration: x_i = exp(sum_e lam_e a_ie - g_i - ln P), n = N x.
    Returns (n, kkt residual) or None when it does not converge."""
    S, E = A.shape
    lam = np.linalg.lstsq(A, g + lnP - math.log(S), rcond=None)[0]
    lnN = math.log(max(b.sum() / max(A.sum(1).mean(), 1e-9), 1e-12))
    for it in range(400):
        lnx = A @ lam - g - lnP
        m = lnx.max()
        if m > 50:      # keep the iterate finite: shift through N
            lam = lam * 1.0
        x = np.exp(np.clip(lnx, -700, 50))
        N = math.exp(lnN)
        n = N * x
        r = np.concatenate([A.T @ n - b, [x.sum() - 1.0]])
        scale = np.concatenate([np.maximum(b, 1e-300), [1.0]])
        if np.max(np.abs(r) / scale) < 1e-12:
            return n, float(np.max(np.abs(r) / scale))
        J = np.zeros((E + 1, E + 1))
        J[:E, :E] = A.T @ (n[:, None] * A)
        J[:E, E] = A.T @ n            # d/d lnN
        J[E, :E] = x @ A
        step = np.linalg.lstsq(J, -r, rcond=1e-13)[0]
        # damp: no mole fraction may change by more than e^2 in one step
        dl = A @ step[:E]
        t = 1.0
        lim = max(np.max(np.abs(dl)), abs(step[E]))
        if lim > 2.0:
            t = 2.0 / lim
        lam = lam + t * step[:E]
        lnN = lnN + t * step[E]
    return None


def gibbs(n, g, P_bar):
    n = np.asarray(n, dtype=float)
    nT = n.sum()
    with np.errstate(all='ignore'):
        return float(np.sum(n * (g + np.log(np.maximum(n, 1e-300) * P_bar / nT))))


def make_eq(case, order):
    from pmutt.equilibrium import Equilibrium
    sp = _species(case)
    feed = _feed(case)
    names = [sp[i].name for i in order]
    network = {names[k]: float(feed[i]) for k, i in enumerate(order)}
    if case['route'] == 'thermdat':
        from pmutt.io.thermdat import write_thermdat
        d = tempfile.mkdtemp(prefix='vf-c16-')
        try:
            fn = os.path.join(d, 'thermdat')
            write_thermdat(sp, filename=fn, write_date=False)
            eq = Equilibrium.from_thermdat(fn, network)
        finally:
            shutil.rmtree(d, ignore_errors=True)
    elif case['route'] == 'dict':
        eq = Equilibrium(model={s.name: s for s in sp}, network=network)
    else:
        eq = Equilibrium(model=list(sp), network=network)
    return eq, names


def solve(eq, T, P):
    """-> (status, result or exception)"""
    # the optimiser's own verdict is observed through the module-level name the solver calls (harness-side spy)
    import pmutt.equilibrium._equilibrium as eqmod
    verdicts = []
    orig = getattr(eqmod, 'minimize', None)
    if orig is not None:
        def spy(*a, **k):
            sol = orig(*a, **k)
            verdicts.append(bool(sol.success))
            return sol
        eqmod.minimize = spy
    try:
        with warnings.catch_warnings(record=True) as wlist:
            warnings.simplefilter('always')
            try:
                res = eq.get_net_comp(T=T, P=P)
            except Exception as e:
                if exc_site(e) is None:
                    raise
                return 'raised', e
    finally:
        if orig is not None:
            eqmod.minimize = orig
    sig = [w for w in wlist if 'Values in x were outside bounds' not in str(w.message)]
    if not sig and verdicts and not all(verdicts):
        return 'silent', res
    return ('warned' if sig else 'ok'), res


def run_pmutt(case, order):
    try:
        eq, names = make_eq(case, order)
    except Exception as e:
        if exc_site(e) is None:
            raise
        return 'raised', e, None, None, None
    status, res = solve(eq, case['T'], case['P'])
    if status == 'raised':
        return 'raised', res, None, None, None
    g_model = np.array([float(eq.model[nm].get_GoRT(T=case['T'])) for nm in names])
    return status, res, g_model, names, eq


def judge(A, b, used, rank, n, g, P_bar, ref):
    """-> (kind, detail) for a returned composition; kind None = consistent with the property"""
    x = n / n.sum()
    lnP = math.log(P_bar)
    if np.any(n < 0) or not np.all(np.isfinite(n)):
        return 'negative-or-nonfinite-moles', '%r' % n.tolist()
    bal = n @ A - b
    if np.max(np.abs(bal)) > 1e-9 * np.max(b):
        return 'atoms-not-conserved', 'element totals %r vs feed %r (moles %r)' % ((n @ A).tolist(), b.tolist(), n.tolist())
    nt = x > 1e-3
    mu = g + np.log(np.maximum(x, 1e-300)) + lnP
    if nt.sum() >= 1:
        # element potentials by least squares weighted with the mole fractions; solver tolerance expressed through
        # its second-order effect on G:  sum_i 1/2 x_i r_i^2 <= 1e-5 per mole of mixture
        wgt = np.sqrt(x[nt])
        lam = np.linalg.lstsq(A[nt] * wgt[:, None], mu[nt] * wgt, rcond=None)[0]
        resid = mu[nt] - A[nt] @ lam
        if 0.5 * float(np.sum(x[nt] * resid ** 2)) > 1e-5:
            return 'not-at-equilibrium', 'reaction affinity residuals %r among non-trace species x=%r' % (resid.tolist(), x[nt].tolist())
    if ref is not None:
        n_ref = ref[0]
        G, Gr = gibbs(n, g, P_bar), gibbs(n_ref, g, P_bar)
        if G > Gr + 1e-5 * (1 + abs(Gr)):
            return 'not-minimal', 'G = %.10g but a feasible composition has G = %.10g (n=%r ref=%r)' % (G, Gr, n.tolist(), n_ref.tolist())
        xr = n_ref / n_ref.sum()
        big = xr > 1e-3
        dev = np.abs(np.log(np.maximum(n[big], 1e-300) / n_ref[big]))
        if np.any(dev > np.sqrt(2e-5 / xr[big])):
            return 'composition-vs-reference', 'moles %r vs reference %r' % (n[big].tolist(), n_ref[big].tolist())
    return None, ''


def check_network(case, ctx):
    A = np.array(case['comps'], dtype=float)
    S, E = A.shape
    feed = _feed(case)
    b = feed @ A
    used = b > 0
    rank = int(np.linalg.matrix_rank(A[:, used])) if used.any() else 0
    dof = S - rank
    ctx.label('elements:%d' % E, 'dof:%s' % ('0' if dof == 0 else '1+'), 'route:' + case['route'])
    ctx.nontrivial(dof >= 1 and E >= 2)
    order = list(range(S))
    status, res, g_model, names, eq = run_pmutt(case, order)
    if status == 'raised':
        e = res
        ctx.fail('C16.network/raises:%s@%s' % (type(e).__name__, exc_site(e)), '%s (elements %r)' % (e, case['elements']))
        return
    if status == 'warned':
        ctx.label('signalled-by-warning')
        # asked again on the same object, the failure is signalled again (never answered silently from memory)
        st_again, _ = solve(eq, case['T'], case['P'])
        if st_again not in ('warned', 'raised'):
            ctx.fail('C16.network/non-convergence-not-signalled', 'the first request for T=%r P=%r was signalled, the second on the '
                     'same object came back as %r' % (case['T'], case['P'], st_again))
        return
    if status == 'silent':
        ctx.fail('C16.network/non-convergence-not-signalled', 'the optimiser reported failure; get_net_comp returned %r '
                 'without a warning or an exception' % (np.asarray(res.moles).tolist(),))
        return
    n = np.asarray(res.moles, dtype=float)
    x = np.asarray(res.mole_frac, dtype=float)
    P_bar = case['P'] * 1.01325
    ctx.close('C16.network/mole-fractions-sum', x.sum(), 1.0, rtol=1e-12)
    if np.all(np.isfinite(n)) and n.sum() > 0:
        ctx.close('C16.network/mole-fractions=n/N', x, n / n.sum(), rtol=1e-12)
    ref = reference_minimum(A[:, used], b[used], g_model, math.log(P_bar))
    if ref is None:
        ctx.exclude('reference minimiser did not converge')
    kind, detail = judge(A, b, used, rank, n, g_model, P_bar, ref)
    # other listings of the same problem
    others = []
    perm = list(case['perm'])
    for alt in (perm, order[::-1], order[1:] + order[:1]):
        if alt == order or alt in [o for o, _ in others]:
            continue
        st2, res2, g2, _, _ = run_pmutt(case, alt)
        if st2 == 'silent':
            ctx.fail('C16.network/non-convergence-not-signalled', 'listing %r: the optimiser reported failure, no warning' % (alt,))
            return
        if st2 != 'ok':
            others.append((alt, None))
            continue
        n2 = np.asarray(res2.moles, dtype=float)
        back = np.empty(S)
        for k_, i in enumerate(alt):
            back[i] = n2[k_]
        others.append((alt, back))
        if kind is None and alt != perm:
            break      # one alternative listing is enough when the result is fine
    if kind is not None:
        # SLSQP (from the all-ones start) sometimes stops at a non-minimal point and still reports success.  Known
        # forms: (a) the element balances are linearly dependent among the species that stay in the mixture, (b) a
        # stall that another listing order of the same species does not show.  Anything else is systematic.
        active = x > 1e-8
        if used.any() and np.all(np.isfinite(x)) and np.linalg.matrix_rank(A[active][:, used]) < rank:
            ctx.fail('C16.network/%s:active-set-rank-deficient' % kind, detail)
            return
        for alt, back in others:
            if back is not None and judge(A, b, used, rank, back, g_model, P_bar, ref)[0] is None:
                ctx.fail('C16.network/%s:order-dependent-solver-stall' % kind, detail + ' | listing %r converges' % (alt,))
                return
        ctx.fail('C16.network/' + kind, detail)
        return
    # --- independence of the listing order ------------------------------------------------
    for alt, back in others:
        if back is None:
            ctx.label('permuted-run-signalled')
            continue
        k2, d2 = judge(A, b, used, rank, back, g_model, P_bar, ref)
        if k2 is not None:
            act2 = back / back.sum() > 1e-8
            suffix = ':active-set-rank-deficient' if (used.any() and np.linalg.matrix_rank(A[act2][:, used]) < rank) \
                else ':order-dependent-solver-stall'
            ctx.fail('C16.network/%s%s' % (k2, suffix), 'listing %r: %s' % (alt, d2))
            return
        big = x > 1e-3
        dev = np.abs(np.log(np.maximum(back[big], 1e-300) / n[big]))
        if np.any(dev > 2 * np.sqrt(2e-5 / x[big])):
            # two listings, two compositions: the one with the higher Gibbs energy is a (silent) solver stall
            Ga, Gb = gibbs(n, g_model, P_bar), gibbs(back, g_model, P_bar)
            if abs(Ga - Gb) > 1e-5 * (1 + min(abs(Ga), abs(Gb))):
                ctx.fail('C16.network/not-minimal:order-dependent-solver-stall',
                         'listing %r gives %r (G=%.10g), original %r (G=%.10g)' % (alt, back.tolist(), Gb, n.tolist(), Ga))
                return
            ctx.fail('C16.network/order-dependence', 'listing %r gives %r, original %r' % (alt, back[big].tolist(), n[big].tolist()))
            return
    # --- the same object asked again at other conditions behaves like a fresh one (no stale state) --------
    T2, P2 = case['T2'], case['P2']
    st_a, again = solve(eq, T2, P2)
    eq2, _ = make_eq(case, order)
    st_f, fresh = solve(eq2, T2, P2)
    if 'silent' in (st_a, st_f):
        ctx.fail('C16.network/non-convergence-not-signalled', 'second call at T=%r P=%r: the optimiser reported failure, no warning' % (T2, P2))
    elif st_a != st_f:
        ctx.fail('C16.network/reused-object-differs-from-fresh', 'second call %s, fresh object %s' % (st_a, st_f))
    elif st_a == 'ok':
        na, nf = np.asarray(again.moles, dtype=float), np.asarray(fresh.moles, dtype=float)
        if again.T != T2 or again.P != P2 or not np.allclose(na, nf, rtol=1e-9, atol=1e-15):
            ctx.fail('C16.network/reused-object-differs-from-fresh', 'second call at T=%r P=%r gives %r, a fresh object %r' % (
                T2, P2, na.tolist(), nf.tolist()))
        ctx.label('reuse-checked')


CLAUSES = [
    Clause('C16.network', network_case(), check_network, 250, 1500,
           '2-12 gas species over 1-4 elements (compositions 0-4 per element, at least one atom), NASA-7 thermodynamics tuned so '
           'that G/RT at T is a drawn value (span 5, 20 or 60), non-negative feed topped up so every element is present, T 300-2500 '
           'K, P 0.01-100 atm, model given as list / dict / thermdat file, a random permutation of the species. Oracle (for results '
           'returned without warning or exception): atoms conserved to 1e-7, n >= 0, sum x = 1, reaction affinities among species with '
           'x > 1e-3 vanish (sum 1/2 x r^2 <= 1e-5, x-weighted least-squares element potentials) (least-squares element potentials), G not above an independent element-potential Newton '
           'minimiser (itself converged to 1e-12), same composition after permuting the species, and a second call on the same object at other (T, P) equals a fresh object. Non-trivial = >= 1 degree of '
           'freedom and >= 2 elements', quick_shards=6, budget_s=(100, 1500)),
]
ASSUMPTIONS = ['ideal-gas mixture, standard state 1 bar, P[bar] = 1.01325 P[atm] (as the library documents)',
               'trace species (x < 1e-3) are judged only through the total Gibbs energy (tolerance 1e-5 (1+|G|))',
               'cases where the reference minimiser does not converge are excluded and counted']

"""C17 - PiecewiseCovEffect stays the continuous piecewise-linear function under edits.

Model-based history check: the case descriptor is an initial (breakpoints, slopes)
list plus a list of operations; the model is a multiset of (breakpoint, slope)
pairs and the exactly integrated reference function.
"""
import json
import math

from hypothesis import strategies as st

from vf.core import Clause

slope_st = st.one_of(st.floats(-100, 100), st.sampled_from([0.0, 1.0, -1.0, 100.0, -100.0]),
                     st.integers(-50, 50).map(float))
unit = st.floats(0.0, 1.0)


@st.composite
def history(draw):
    n = draw(st.integers(1, 6))
    # strictly ascending breakpoints in [0, 1] starting at 0
    cuts = sorted(draw(st.lists(st.floats(0.01, 1.0), min_size=n - 1, max_size=n - 1, unique=True)))
    intervals = [0.0] + cuts
    slopes = [draw(slope_st) for _ in range(n)]
    ops = []
    for _ in range(draw(st.integers(0, 6))):
        kind = draw(st.sampled_from(['ins-between', 'ins-equal', 'ins-equal', 'ins-above', 'ins-free', 'ins-above',
                                     'ins-below', 'ins-below', 'pop-zero', 'pop', 'pop', 'pop0', 'reload-dict', 'reload-json']))
        if kind.startswith('ins'):
            ops.append({'op': kind, 'j': draw(st.integers(0, 11)), 'u': draw(unit),
                        'slope': draw(slope_st)})
        elif kind == 'pop':
            ops.append({'op': 'pop', 'j': draw(st.integers(0, 11))})
        else:
            ops.append({'op': kind})
    xs = draw(st.lists(st.fixed_dictionaries({'kind': st.sampled_from(['on', 'between', 'beyond', 'free']),
                                              'j': st.integers(0, 11), 'u': unit}),
                       min_size=1, max_size=4))
    T = draw(st.floats(50, 3000))
    T2 = draw(st.floats(50, 3000))
    return {'intervals': intervals, 'slopes': slopes, 'ops': ops, 'xs': xs, 'T': T, 'T2': T2}


def f_ref(pairs, x):
    """Integral of the step function slope(t) from 0 to x; pairs = listed order."""
    total = 0.0
    for k, (b, s) in enumerate(pairs):
        hi = pairs[k + 1][0] if k + 1 < len(pairs) else math.inf
        if x <= b:
            break
        lo = max(b, 0.0)           # (a breakpoint inserted below 0 starts before the origin; coverages are >= 0)
        if min(x, hi) > lo:
            total += s * (min(x, hi) - lo)
    return total


def _insert_value(op, bps):
    j = op['j'] % len(bps)
    if op['op'] == 'ins-equal':
        return bps[j]
    if op['op'] == 'ins-between':
        if len(bps) == 1:
            return op['u'] * 1.0
        j = op['j'] % (len(bps) - 1)
        return bps[j] + op['u'] * (bps[j + 1] - bps[j])
    if op['op'] == 'ins-below':
        return min(bps[0], 0.0) - op['u']
    if op['op'] == 'ins-above':
        last = bps[-1]
        return last + op['u'] * max(1.0 - last, 0.0)
    return op['u']


def _check_state(ctx, obj, model, case, step):
    from pmutt import constants as c
    tag = 'C17.history'
    ivs = [float(v) for v in obj.intervals]
    sls = [float(v) for v in obj.slopes]
    if len(ivs) != len(sls):
        ctx.fail(tag + '/length-mismatch', 'step %d intervals %r slopes %r' % (step, ivs, sls))
        return False
    if any(ivs[i] > ivs[i + 1] for i in range(len(ivs) - 1)):
        ctx.fail(tag + '/not-ascending', 'step %d intervals %r' % (step, ivs))
        return False
    if sorted(zip(ivs, sls)) != sorted(model):
        ctx.fail(tag + '/pairs-changed', 'step %d got %r model %r' % (step, list(zip(ivs, sls)), sorted(model)))
        return False
    pairs = list(zip(ivs, sls))
    R = c.R('kcal/mol/K')
    smax = 1 + max(abs(s) for s in sls)
    xs = []
    for xd in case['xs']:
        j = xd['j'] % len(ivs)
        if xd['kind'] == 'on':
            xs.append(ivs[j])
        elif xd['kind'] == 'between':
            hi = ivs[j + 1] if j + 1 < len(ivs) else 1.0
            xs.append(ivs[j] + xd['u'] * max(hi - ivs[j], 0.0))
        elif xd['kind'] == 'beyond':
            xs.append(ivs[-1] + xd['u'] * 0.5)
        else:
            xs.append(1.5 * xd['u'])
    xs = [max(x, 0.0) for x in xs]       # coverages are never negative
    for x in xs:
        ref = f_ref(pairs, x)
        for T in (case['T'], case['T2']):
            for g in ('get_UoRT', 'get_HoRT', 'get_FoRT', 'get_GoRT'):
                val = getattr(obj, g)(x=x, T=T) * R * T
                if not ctx.close('%s/value:%s' % (tag, g), val, ref, rtol=1e-10, atol=1e-10 * smax,
                                 detail='step %d x=%r T=%r pairs=%r' % (step, x, T, pairs)):
                    return False
        ctx.close(tag + '/value:get_H(kcal/mol)', obj.get_H(units='kcal/mol', T=case['T'], x=x), ref,
                  rtol=1e-10, atol=1e-10 * smax, detail='step %d x=%r' % (step, x))
    # continuity through the public getter at every breakpoint
    T = case['T']
    for b in ivs[1:]:
        if b <= 0.0:
            continue  # a duplicate of the origin: no coverage below it
        lo = obj.get_UoRT(x=math.nextafter(b, -math.inf), T=T) * R * T
        hi = obj.get_UoRT(x=math.nextafter(b, math.inf), T=T) * R * T
        at = obj.get_UoRT(x=b, T=T) * R * T
        if not (abs(hi - lo) <= 1e-9 * smax and abs(at - lo) <= 1e-9 * smax):
            ctx.fail(tag + '/discontinuous', 'step %d at %r: %r %r %r' % (step, b, lo, at, hi))
            return False
    if obj.get_UoRT(x=0.0, T=T) != 0:
        ctx.fail(tag + '/nonzero-at-zero', 'step %d %r' % (step, obj.get_UoRT(x=0.0, T=T)))
    for g in ('get_UoRT', 'get_HoRT', 'get_FoRT', 'get_GoRT'):
        # documented default coverage is 0
        if getattr(obj, g)(T=T) != 0:
            ctx.fail('%s/nonzero-at-default-coverage:%s' % (tag, g), 'step %d %r' % (step, getattr(obj, g)(T=T)))
    for g in ('get_SoR', 'get_CvoR', 'get_CpoR'):
        if getattr(obj, g)() != 0:
            ctx.fail('%s/nonzero:%s' % (tag, g), 'step %d' % step)
    return True


def check_history(case, ctx):
    from pmutt.mixture.cov import PiecewiseCovEffect
    from pmutt.io.json import pmuttEncoder, json_to_pmutt
    obj = PiecewiseCovEffect(name_i='A(S)', name_j='B(S)', intervals=list(case['intervals']),
                             slopes=list(case['slopes']))
    model = list(zip(case['intervals'], case['slopes']))
    if not _check_state(ctx, obj, model, case, 0):
        return
    n_above = n_pop = 0
    kept = []
    for step, op in enumerate(case['ops'], 1):
        kind = op['op']
        if kind.startswith('ins'):
            bps = [float(v) for v in obj.intervals]
            v = _insert_value(op, bps)
            if v < bps[0]:
                ctx.label('insert-below-first')
            if v >= bps[-1]:
                n_above += 1
                ctx.label('insert-at-or-above-last')
            elif v in bps:
                ctx.label('insert-equal')
            else:
                ctx.label('insert-inside')
            obj.insert(v, op['slope'])
            model.append((v, op['slope']))
        elif kind == 'pop':
            if len(obj.intervals) < 2:
                continue
            i = 1 + op['j'] % (len(obj.intervals) - 1)
            pair = (float(obj.intervals[i]), float(obj.slopes[i]))
            obj.pop(i)
            if pair not in model:
                ctx.fail('C17.history/pairs-changed', 'popped pair %r not in model' % (pair,))
                return
            model.remove(pair)
            n_pop += 1
            ctx.label('pop')
        elif kind == 'pop-zero':
            # the breakpoint at zero itself goes (possible once something was inserted below it)
            ivs_ = [float(v) for v in obj.intervals]
            if 0.0 not in ivs_ or ivs_.index(0.0) == 0:
                continue
            i = ivs_.index(0.0)
            pair = (ivs_[i], float(obj.slopes[i]))
            obj.pop(i)
            model.remove(pair)
            n_pop += 1
            ctx.label('pop-zero-breakpoint')
        elif kind == 'pop0':
            before = (list(obj.intervals), list(obj.slopes))
            try:
                obj.pop(0)
            except ValueError:
                pass
            else:
                ctx.fail('C17.history/pop0-accepted', 'pop(0) did not raise')
                return
            if (list(obj.intervals), list(obj.slopes)) != before:
                ctx.fail('C17.history/pop0-mutated', 'state changed by refused pop(0)')
                return
            ctx.label('pop0')
        elif kind == 'reload-dict':
            kept.append((obj, list(model), step))       # the serialised-from object lives on, untouched from here
            obj = PiecewiseCovEffect.from_dict(obj.to_dict())
            ctx.label('reload')
        elif kind == 'reload-json':
            txt = json.dumps(obj, cls=pmuttEncoder)
            obj = json.loads(txt, object_hook=json_to_pmutt)
            if not isinstance(obj, PiecewiseCovEffect):
                ctx.fail('C17.history/reload-class', 'json reload gave %s' % type(obj).__name__)
                return
            ctx.label('reload')
        if not _check_state(ctx, obj, model, case, step):
            return
    # objects that were serialised earlier are unaffected by what happened to their reloaded copies since
    for old_obj, old_model, at in kept:
        if at < len(case['ops']):
            ctx.label('kept-object-rechecked')
        if sorted(zip([float(v) for v in old_obj.intervals], [float(v) for v in old_obj.slopes])) != sorted(old_model):
            ctx.fail('C17.history/serialised-object-changed-later', 'object serialised at step %d now has %r/%r, had %r' % (
                at, list(old_obj.intervals), list(old_obj.slopes), sorted(old_model)))
            return
        if not _check_state(ctx, old_obj, old_model, case, at):
            return
    # every history ends with both reload routes (deterministic, cheap)
    last = len(case['ops']) + 1
    o2 = PiecewiseCovEffect.from_dict(obj.to_dict())
    if not _check_state(ctx, o2, model, case, last):
        return
    if [float(v) for v in o2.intervals] != [float(v) for v in obj.intervals] or \
            [float(v) for v in o2.slopes] != [float(v) for v in obj.slopes]:
        ctx.fail('C17.history/reload-reordered', 'dict reload %r/%r vs %r/%r' % (
            o2.intervals, o2.slopes, obj.intervals, obj.slopes))
        return
    o3 = json.loads(json.dumps(obj, cls=pmuttEncoder), object_hook=json_to_pmutt)
    if not isinstance(o3, PiecewiseCovEffect):
        ctx.fail('C17.history/reload-class', 'json reload gave %s' % type(o3).__name__)
        return
    xs = [0.05 * k for k in range(0, 31)]
    for x in xs:
        if o3.get_UoRT(x=x, T=case['T']) != obj.get_UoRT(x=x, T=case['T']):
            ctx.fail('C17.history/reload-changed-function', 'x=%r: %r vs %r; %r/%r vs %r/%r' % (
                x, o3.get_UoRT(x=x, T=case['T']), obj.get_UoRT(x=x, T=case['T']),
                o3.intervals, o3.slopes, obj.intervals, obj.slopes))
            return
    kinds = {('ins' if o['op'].startswith('ins') else 'reload' if o['op'].startswith('reload') else o['op']) for o in case['ops']}
    kinds = {'pop' if k_ == 'pop-zero' else k_ for k_ in kinds}
    ctx.nontrivial(len(kinds - {'pop0'}) >= 2)


CLAUSES = [
    Clause('C17.history', history(), check_history, 1500, 15000,
           'initial 1-6 strictly ascending breakpoints from 0 in [0,1], slopes +-100 kcal/mol; up to 6 '
           'operations insert(below/between/equal/above/free), pop(i>=1), pop(0), to_dict/from_dict and JSON '
           'reload; after every step: ascending, pairs = model multiset, value at 1-4 coverages (on / '
           'between / beyond breakpoints) at two temperatures = exact integral of the listed slopes, '
           'continuity at each breakpoint, zero S/Cv/Cp; objects serialised mid-history are re-checked at the end. Non-trivial = history with at least two '
           'different kinds of operation among insert, pop and reload'),
]
FUZZ = [('C17.history', 15000, 3)]
ASSUMPTIONS = ['R(kcal/mol/K) from pmutt.constants (judged by C12)',
               'order among exactly equal breakpoints is left to the library; the function is judged '
               'against the order the object itself lists']

"""C11 - JSON serialisation round-trips every pMuTT object."""
import copy
import inspect
import json
import math

import numpy as np
from hypothesis import strategies as st

from vf import gen
from vf.core import Clause, exc_site
from vf.p01 import build_mode, lsr_st
from vf.p13 import cov_model

CLASSES = ['FreeTrans', 'HarmonicVib', 'QRRHOVib', 'EinsteinVib', 'DebyeVib', 'RigidRotor', 'GroundStateElec', 'EmptyNucl',
           'EmptyMode', 'ConstantMode', 'LSR', 'ExtendedLSR', 'StatMech', 'Nasa', 'Nasa9', 'SingleNasa9', 'Shomate', 'Reference', 'References',
           'GasPressureAdj', 'PiecewiseCovEffect', 'CatSite', 'BEP', 'omkmBEP', 'Reaction', 'ChemkinReaction', 'SurfaceReaction',
           'Reactions', 'PhaseDiagram', 'IdealGasEOS', 'vanDerWaalsEOS']
text_st = st.one_of(st.none(), st.text('abcXYZ 0123-_', min_size=1, max_size=12))
# notes are documented as "str or dict"; a user dictionary may well have a key called 'class'
notes_st = st.one_of(text_st, text_st, st.just({'class': 'adsorbate', 'site': 'fcc'}), st.just({'source': 'paper', 'n': 3}))
elements_st = st.dictionaries(st.sampled_from(['H', 'C', 'O', 'N', 'Pt']), st.integers(1, 6), min_size=1, max_size=3)


@st.composite
def species_for_rxn(draw, name, chemkin=False):
    if chemkin or draw(st.booleans()):
        d = draw(st.one_of(gen.nasa_desc(name=name), gen.shomate_desc(name=name)))
        d['phase'] = draw(st.sampled_from(['G', 'S']))
    else:
        d = draw(gen.statmech_desc(name=name, allow_imag=False))
    d['elements'] = draw(elements_st)
    return d


@st.composite
def obj_desc(draw, cls=None, depth=0):
    cls = cls or draw(st.sampled_from(CLASSES))
    d = {'cls': cls}
    if cls == 'FreeTrans':
        d['mode'] = draw(gen.trans_st)
    elif cls == 'HarmonicVib':
        d['mode'] = draw(gen.harmonic_st())
    elif cls == 'QRRHOVib':
        d['mode'] = draw(gen.qrrho_st())
    elif cls == 'EinsteinVib':
        d['mode'] = draw(gen.einstein_st)
    elif cls == 'DebyeVib':
        d['mode'] = draw(gen.debye_st)
    elif cls == 'RigidRotor':
        d['mode'] = draw(gen.rot_st())
        d['theta_given'] = draw(st.booleans())
    elif cls == 'GroundStateElec':
        d['mode'] = draw(gen.elec_st)
        d['D0'] = draw(st.one_of(st.none(), st.floats(0, 5)))
    elif cls == 'ConstantMode':
        d['mode'] = draw(gen.constant_desc(name='c'))
        d['notes'] = draw(notes_st)
    elif cls == 'LSR':
        d['mode'] = draw(lsr_st)
        d['notes'] = draw(notes_st)
    elif cls == 'ExtendedLSR':
        n = draw(st.integers(1, 3))
        fl = lambda lo, hi: [draw(st.floats(lo, hi)) for _ in range(n)]
        d.update({'slopes': fl(0, 1), 'dE': fl(-150, 0), 'E_surf': fl(-100, 0), 'E_gas': fl(-100, 0),
                  'intercept': draw(st.floats(-40, 40)), 'notes': draw(notes_st)})
    elif cls == 'StatMech':
        d['species'] = draw(gen.statmech_desc(name=draw(gen.name_st)))
        d['elements'] = draw(st.one_of(st.none(), elements_st))
        d['smiles'] = draw(text_st)
        d['notes'] = draw(notes_st)
        d['refs'] = draw(st.one_of(st.none(), st.floats(-10, 10)))
        d['misc'] = [draw(cov_model()) for _ in range(draw(st.sampled_from([0, 0, 1, 2])))]
    elif cls in ('Nasa', 'Nasa9', 'Shomate'):
        d['species'] = draw({'Nasa': gen.nasa_desc(), 'Nasa9': gen.nasa9_desc(), 'Shomate': gen.shomate_desc(
            units=('J/mol/K', 'cal/mol/K', 'eV/K'))}[cls])
        d['species']['phase'] = draw(st.sampled_from([None, 'G', 'S', 'g', 'gas', 'Gas']))
        d['no_P_adj'] = draw(st.sampled_from([False, False, True]))      # the user may switch the pressure adjustment off
        d['elements'] = draw(st.one_of(st.none(), elements_st))
        d['notes'] = draw(notes_st)
        d['smiles'] = draw(text_st)
        d['n_sites'] = draw(st.sampled_from([None, None, 1, 2]))
        d['explicit_none'] = draw(st.booleans())
        d['cat_site'] = draw(st.booleans()) if cls == 'Nasa' else False
        d['misc'] = [draw(cov_model()) for _ in range(draw(st.sampled_from([0, 0, 1])))]
    elif cls == 'SingleNasa9':
        d['seg'] = draw(gen.nasa9_desc())['segs'][0]
    elif cls in ('Reference', 'References'):
        n = 1 if cls == 'Reference' else draw(st.integers(1, 3))
        d['refs'] = [{'model': draw(gen.statmech_desc(name='r%d' % i, allow_imag=False)), 'elements': draw(elements_st),
                      'T_ref': 298.15, 'HoRT_ref': draw(st.floats(-100, 100))} for i in range(n)]
        d['fit'] = draw(st.sampled_from([True, False, 'cleared']))
    elif cls == 'PiecewiseCovEffect':
        d['cov'] = draw(cov_model())
        d['name'] = draw(text_st)
    elif cls == 'CatSite':
        d.update({'name': 'RU0001', 'site_density': draw(gen.logf(1e-11, 1e-8)), 'density': draw(st.floats(1, 20)),
                  'bulk_specie': 'RU(B)'})
    elif cls in ('BEP', 'omkmBEP'):
        d.update({'slope': draw(st.floats(0, 1)), 'intercept': draw(st.floats(0, 60)), 'name': draw(gen.name_st),
                  'descriptor': draw(st.sampled_from(['delta_H', 'rev_delta_H', 'delta_E', 'products_H'])),
                  'elements': draw(st.one_of(st.none(), elements_st)), 'notes': draw(notes_st),
                  'direction': draw(st.sampled_from([None, 'cleavage', 'synthesis']))})
    elif cls in ('Reaction', 'ChemkinReaction', 'SurfaceReaction'):
        names = ['A', 'B', 'C', 'TS'][:draw(st.integers(2, 4))]
        d['species'] = [draw(species_for_rxn(nm, chemkin=(cls == 'ChemkinReaction'))) for nm in names]
        idx = st.integers(0, len(names) - 1)
        co = st.sampled_from([1.0, 2.0, 0.5])
        d['react'] = draw(st.lists(st.tuples(idx, co).map(list), min_size=1, max_size=2))
        d['prod'] = draw(st.lists(st.tuples(idx, co).map(list), min_size=1, max_size=2))
        d['ts'] = draw(st.one_of(st.none(), st.lists(st.tuples(idx, st.just(1.0)).map(list), min_size=1, max_size=1)))
        d['notes'] = draw(notes_st)
        if cls == 'ChemkinReaction':
            d.update({'beta': draw(st.sampled_from([1.0, 0.0, 0.5])), 'is_adsorption': draw(st.booleans()),
                      'sticking_coeff': draw(st.floats(0.1, 1.0))})
        if cls == 'SurfaceReaction':
            d.update({'id': draw(st.sampled_from([None, 'r_0001', 'r_0042'])), 'is_adsorption': draw(st.booleans()),
                      'beta': draw(st.sampled_from([None, 1.0, 0.0])), 'direction': draw(st.sampled_from([None, 'cleavage'])),
                      'sticking_coeff': draw(st.one_of(st.none(), st.floats(0.1, 1.0))),
                      'use_motz_wise': draw(st.booleans()), 'A': draw(st.one_of(st.none(), st.floats(1e3, 1e13))),
                      'Ea': draw(st.one_of(st.none(), st.floats(0, 50)))})
    elif cls in ('Reactions', 'PhaseDiagram'):
        n = draw(st.integers(1, 3))
        d['rxns'] = [draw(obj_desc(cls='Reaction')) for _ in range(n)]
        if cls == 'PhaseDiagram':
            d['norm'] = draw(st.one_of(st.none(), st.lists(st.floats(0.5, 4), min_size=n, max_size=n)))
    elif cls == 'vanDerWaalsEOS':
        d.update({'a': draw(gen.logf(0.003, 3)), 'b': draw(gen.logf(1e-5, 2e-4))})
    d['cycles'] = draw(st.sampled_from([1, 1, 2, 3]))
    return d


def build(d):
    cls = d['cls']
    if cls in ('FreeTrans',):
        return build_mode('trans', d['mode'])
    if cls in ('HarmonicVib', 'QRRHOVib', 'EinsteinVib', 'DebyeVib'):
        return build_mode('vib', d['mode'])
    if cls == 'RigidRotor':
        from pmutt.statmech.rot import RigidRotor
        md = d['mode']
        if md['geometry'] == 'monatomic' and not d['theta_given']:
            return RigidRotor(symmetrynumber=md['sigma'], geometry='monatomic')
        return build_mode('rot', md)
    if cls == 'GroundStateElec':
        from pmutt.statmech.elec import GroundStateElec
        return GroundStateElec(potentialenergy=d['mode']['E'], spin=d['mode']['spin'], D0=d['D0'])
    if cls == 'EmptyNucl':
        from pmutt.statmech.nucl import EmptyNucl
        return EmptyNucl()
    if cls == 'EmptyMode':
        from pmutt.statmech import EmptyMode
        return EmptyMode()
    if cls == 'ConstantMode':
        from pmutt.statmech import ConstantMode
        m = d['mode']
        return ConstantMode(q=m['q'], Cv=m['Cv'], Cp=m['Cp'], U=m['U'], H=m['H'], S=m['S'], F=m['F'], G=m['G'], notes=d['notes'])
    if cls == 'LSR':
        o = build_mode('elec', d['mode'])
        o.notes = d['notes']
        return o
    if cls == 'ExtendedLSR':
        from pmutt.statmech.lsr import ExtendedLSR
        return ExtendedLSR(slopes=list(d['slopes']), intercept=d['intercept'], reactions=list(d['dE']),
                           surf_species=list(d['E_surf']), gas_species=list(d['E_gas']), notes=d['notes'])
    if cls == 'StatMech':
        from pmutt.empirical.references import References
        from pmutt.mixture.cov import PiecewiseCovEffect
        sd = dict(d['species'])
        sd['elements'] = d['elements']
        refs = None
        if d['refs'] is not None and d['elements']:
            refs = References(offset={e: d['refs'] for e in d['elements']}, T_ref=298.15)
        misc = [PiecewiseCovEffect(name_i=sd['name'], name_j=m['name_j'], intervals=list(m['intervals']), slopes=list(m['slopes']))
                for m in d['misc']] or None
        return gen.build_statmech(sd, smiles=d['smiles'], notes=d['notes'], references=refs, misc_models=misc)
    if cls in ('Nasa', 'Nasa9', 'Shomate'):
        from pmutt.mixture.cov import PiecewiseCovEffect
        sd = dict(d['species'])
        sd['elements'] = d['elements']
        kw = {'notes': d['notes'], 'smiles': d['smiles']}
        if d.get('no_P_adj'):
            kw['add_gas_P_adj'] = False
        if d['n_sites'] is not None or d.get('explicit_none'):
            kw['n_sites'] = d['n_sites']        # (an explicit None is not the same as the class default)
        if d['cat_site']:
            from pmutt.chemkin import CatSite
            kw['cat_site'] = CatSite(name='RU0001', site_density=2.1e-9, density=12.4, bulk_specie='RU(B)')
        misc = [PiecewiseCovEffect(name_i=sd['name'], name_j=m['name_j'], intervals=list(m['intervals']), slopes=list(m['slopes']))
                for m in d['misc']] or None
        return gen.build_species(sd, misc_models=misc, **kw)
    if cls == 'SingleNasa9':
        from pmutt.empirical.nasa import SingleNasa9
        s = d['seg']
        return SingleNasa9(T_low=s['T_low'], T_high=s['T_high'], a=np.array(s['a']))
    if cls in ('Reference', 'References'):
        from pmutt.empirical.references import Reference, References
        refs = [Reference(name=r['model']['name'], elements=dict(r['elements']), model=gen.build_statmech(r['model']),
                          T_ref=r['T_ref'], HoRT_ref=r['HoRT_ref']) for r in d['refs']]
        if cls == 'Reference':
            return refs[0]
        if d['fit'] == 'cleared':
            # fitted, then emptied by the user: an empty offset table is a state of its own
            out = References(references=refs)
            out.clear_offset()
            return out
        return References(references=refs) if d['fit'] else References(references=refs, offset={'H': 1.5, 'O': -2.0})
    if cls == 'GasPressureAdj':
        from pmutt.empirical import GasPressureAdj
        return GasPressureAdj()
    if cls == 'PiecewiseCovEffect':
        from pmutt.mixture.cov import PiecewiseCovEffect
        m = d['cov']
        return PiecewiseCovEffect(name_i='X', name_j=m['name_j'], intervals=list(m['intervals']), slopes=list(m['slopes']),
                                  name=d['name'])
    if cls == 'CatSite':
        from pmutt.chemkin import CatSite
        return CatSite(name=d['name'], site_density=d['site_density'], density=d['density'], bulk_specie=d['bulk_specie'])
    if cls == 'BEP':
        from pmutt.reaction.bep import BEP
        return BEP(slope=d['slope'], intercept=d['intercept'], name=d['name'], descriptor=d['descriptor'], elements=d['elements'],
                   notes=d['notes'])
    if cls == 'omkmBEP':
        from pmutt.omkm.reaction import BEP
        return BEP(slope=d['slope'], intercept=d['intercept'], name=d['name'], descriptor=d['descriptor'], elements=d['elements'],
                   notes=d['notes'], direction=d['direction'])
    if cls in ('Reaction', 'ChemkinReaction', 'SurfaceReaction'):
        from pmutt.reaction import Reaction, ChemkinReaction
        from pmutt.omkm.reaction import SurfaceReaction
        sp = [gen.build_species(x) for x in d['species']]

        def side(items):
            return [sp[i] for i, _ in items], [c_ for _, c_ in items]
        r, rs = side(d['react'])
        p, ps = side(d['prod'])
        t, ts = side(d['ts']) if d['ts'] else (None, None)
        kw = dict(reactants=r, reactants_stoich=rs, products=p, products_stoich=ps, transition_state=t,
                  transition_state_stoich=ts, notes=d['notes'])
        if cls == 'Reaction':
            return Reaction(**kw)
        if cls == 'ChemkinReaction':
            return ChemkinReaction(beta=d['beta'], is_adsorption=d['is_adsorption'], sticking_coeff=d['sticking_coeff'], **kw)
        return SurfaceReaction(id=d['id'], is_adsorption=d['is_adsorption'], beta=d['beta'], direction=d['direction'],
                               sticking_coeff=d['sticking_coeff'], use_motz_wise=d.get('use_motz_wise', False),
                               A=d.get('A'), Ea=d.get('Ea'), **kw)
    if cls == 'Reactions':
        from pmutt.reaction import Reactions
        return Reactions(reactions=[build(x) for x in d['rxns']])
    if cls == 'PhaseDiagram':
        from pmutt.reaction.phasediagram import PhaseDiagram
        return PhaseDiagram(reactions=[build(x) for x in d['rxns']],
                            norm_factors=None if d['norm'] is None else np.array(d['norm']))
    if cls == 'IdealGasEOS':
        from pmutt.eos import IdealGasEOS
        return IdealGasEOS()
    if cls == 'vanDerWaalsEOS':
        from pmutt.eos import vanDerWaalsEOS
        return vanDerWaalsEOS(a=d['a'], b=d['b'])
    raise ValueError(cls)


# ---------------------------------------------------------------------------
GETTERS = ['get_q', 'get_CvoR', 'get_CpoR', 'get_UoRT', 'get_HoRT', 'get_SoR', 'get_FoRT', 'get_GoRT', 'get_ZPE', 'get_EoRT',
           'get_V', 'get_Tc', 'get_Pc']
RXN_GETTERS = ['get_delta_HoRT', 'get_delta_SoR', 'get_delta_GoRT', 'get_delta_CpoR']
POINTS = [{'T': 350.0, 'P': 2.0, 'x': 0.3}, {'T': 1200.0, 'P': 0.05, 'x': 0.8}]
SKIP_ATTRS = {'self', 'kwargs', 'atoms', 'reaction', 'model', 'degree_tol', 'add_gas_P_adj'}


def _is_pmutt(o):
    return type(o).__module__.startswith('pmutt')


def norm(v, depth=0):
    if v is None or isinstance(v, (bool, str)):
        return v
    if isinstance(v, (int, float, np.integer, np.floating)):
        return float(v)
    if isinstance(v, np.ndarray):
        return [norm(x, depth) for x in v.tolist()]
    if isinstance(v, (list, tuple)):
        return [norm(x, depth) for x in v]
    if isinstance(v, dict):
        return {str(k): norm(x, depth) for k, x in v.items()}
    if _is_pmutt(v):
        return snapshot(v, depth + 1) if depth < 3 else {'__class__': type(v).__name__}
    return repr(v)


def snapshot(obj, depth=0):
    """class name + constructor-parameter attributes + getter values at two (T, P, x) points"""
    snap = {'__class__': '%s.%s' % (type(obj).__module__, type(obj).__name__)}
    try:
        params = [p for p in inspect.signature(type(obj).__init__).parameters if p not in SKIP_ATTRS]
    except (TypeError, ValueError):
        params = []
    extra = ['name', 'elements', 'phase', 'notes', 'smiles', 'n_sites', 'cat_site', 'misc_models', 'references', 'trans_model',
             'vib_model', 'rot_model', 'elec_model', 'nucl_model', 'T_low', 'T_mid', 'T_high', 'a_low', 'a_high', 'nasas', 'units',
             'reactants', 'products', 'transition_state', 'reactants_stoich', 'products_stoich', 'transition_state_stoich',
             'reactions', 'norm_factors', 'offset', 'T_ref', 'HoRT_ref', 'id', 'beta', 'is_adsorption', 'sticking_coeff',
             'direction', 'slope', 'slopes', 'intercept', 'descriptor', 'D0', 'use_motz_wise', 'A', 'Ea', 'gas_phase']
    for a in list(dict.fromkeys(params + extra)):
        if hasattr(obj, a):
            try:
                snap['attr:' + a] = norm(getattr(obj, a), depth)
            except Exception as e:       # property raising on access
                snap['attr:' + a] = 'raises:%s' % type(e).__name__
    if depth == 0:
        for k, pt in enumerate(POINTS):
            for g in GETTERS:
                if hasattr(obj, g) and callable(getattr(obj, g)):
                    snap['%s@%d' % (g, k)] = _obs(getattr(obj, g), pt)
            for g in RXN_GETTERS:
                if hasattr(obj, g):
                    snap['%s@%d' % (g, k)] = _obs(getattr(obj, g), {'T': pt['T'], 'P': pt['P']})
        if hasattr(obj, 'to_string'):
            snap['to_string'] = _obs(obj.to_string, {})
        if hasattr(obj, 'get_GoRT_1D'):
            snap['GoRT_1D'] = _obs(lambda: obj.get_GoRT_1D(x_name='T', x_values=[400., 900.], P=1.), {})
        if hasattr(obj, 'get_E_span'):
            snap['E_span'] = _obs(lambda: obj.get_E_span(units='eV', T=500.), {})
        if type(obj).__name__ == 'References':
            snap['HoRT(H2O)'] = _obs(lambda: obj.get_HoRT(descriptors={'H': 2, 'O': 1}, T=500.), {})
    return snap


def _obs(fn, kw):
    try:
        import warnings
        with warnings.catch_warnings():
            warnings.simplefilter('ignore')
            v = gen.call(fn, **kw) if kw else fn()
    except Exception as e:
        return 'raises:%s' % type(e).__name__
    return norm(v)


def diff(a, b, path=''):
    """first difference between two snapshots -> (path, a, b) or None"""
    if isinstance(a, dict) and isinstance(b, dict):
        for k in sorted(set(a) | set(b)):
            if k not in a or k not in b:
                return ('%s/%s' % (path, k), a.get(k, '<absent>'), b.get(k, '<absent>'))
            r = diff(a[k], b[k], '%s/%s' % (path, k))
            if r:
                return r
        return None
    if isinstance(a, list) and isinstance(b, list):
        if len(a) != len(b):
            return (path + '/len', len(a), len(b))
        for i, (x, y) in enumerate(zip(a, b)):
            r = diff(x, y, '%s[%d]' % (path, i))
            if r:
                return r
        return None
    if isinstance(a, float) and isinstance(b, float):
        if a == b or (math.isnan(a) and math.isnan(b)) or abs(a - b) <= 1e-12 * max(abs(a), abs(b)):
            return None
        return (path, a, b)
    if a != b:
        return (path, a, b)
    return None


def _sigpath(path):
    """root-cause discriminator: first component(s) of the differing path without indices"""
    import re
    parts = [re.sub(r'\[\d+\]', '', p) for p in path.strip('/').split('/')]
    return '/'.join(parts[:2]) if len(parts) > 1 and parts[0].startswith('attr:') and not parts[1].startswith('__') else parts[0] \
        if len(parts) == 1 else '/'.join(parts[:2])


def strict_where(a, b, path=''):
    """first place where two JSON-like trees differ in type or value (None if they are the same tree)"""
    if type(a) is not type(b):
        return '%s: %s -> %s' % (path or '/', type(a).__name__, type(b).__name__)
    if isinstance(a, dict):
        if list(a) != list(b):
            return '%s: keys %r -> %r' % (path or '/', list(a), list(b))
        for k_ in a:
            w = strict_where(a[k_], b[k_], '%s/%s' % (path, k_))
            if w:
                return w
        return None
    if isinstance(a, (list, tuple)):
        if len(a) != len(b):
            return '%s: length %d -> %d' % (path or '/', len(a), len(b))
        for i_, (x_, y_) in enumerate(zip(a, b)):
            w = strict_where(x_, y_, '%s[%d]' % (path, i_))
            if w:
                return w
        return None
    try:
        same = bool(a == b) or (a != a and b != b)
    except Exception:
        same = False
    return None if same else '%s: %r -> %r' % (path or '/', a, b)


def strict_equal(a, b):
    return strict_where(a, b) is None


def check_rt(d, ctx):
    from pmutt.io.json import pmuttEncoder, json_to_pmutt
    obj = build(d)
    cname = d['cls']
    ctx.label('cls:' + cname)
    ctx.nontrivial(cname in ('StatMech', 'Nasa', 'Nasa9', 'Shomate', 'Reference', 'References', 'LSR', 'ExtendedLSR', 'Reaction',
                             'ChemkinReaction', 'SurfaceReaction', 'Reactions', 'PhaseDiagram') or
                   any(d.get(k) for k in ('notes', 'D0', 'name', 'elements')))
    before = snapshot(obj)
    try:
        text = json.dumps(obj, cls=pmuttEncoder)
    except Exception as e:
        if exc_site(e) is None and not isinstance(e, TypeError):
            raise
        ctx.fail('C11.rt/encode:%s:%s' % (cname, type(e).__name__), str(e)[:200])
        return
    cur_text = text
    for cyc in range(d['cycles']):
        try:
            back = json.loads(cur_text, object_hook=json_to_pmutt)
        except Exception as e:
            if exc_site(e) is None:
                raise
            ctx.fail('C11.rt/decode:%s:%s@%s' % (cname, type(e).__name__, exc_site(e)), str(e)[:200])
            return
        if type(back) is not type(obj):
            ctx.fail('C11.rt/class:%s' % cname, 'decoded to %s' % type(back).__name__)
            return
        after = snapshot(back)
        df = diff(before, after)
        if df:
            ctx.fail('C11.rt/changed:%s:%s' % (cname, _sigpath(df[0])), 'cycle %d at %s: %r -> %r' % (cyc + 1, df[0], df[1], df[2]))
            return
        try:
            nxt = json.dumps(back, cls=pmuttEncoder)
        except Exception as e:
            ctx.fail('C11.rt/re-encode:%s:%s' % (cname, type(e).__name__), str(e)[:200])
            return
        if json.loads(nxt) != json.loads(cur_text):
            a, b = json.loads(cur_text), json.loads(nxt)
            dfj = diff(norm(a), norm(b))
            ctx.fail('C11.rt/not-idempotent:%s' % cname, 'cycle %d: %r' % (cyc + 1, dfj))
            return
        cur_text = nxt
    # decoding leaves the dictionary it was given untouched and is repeatable
    raw = json.loads(text)
    keep = copy.deepcopy(raw)
    first = json_to_pmutt(raw)
    if not strict_equal(raw, keep):
        dj = diff(norm(keep), norm(raw)) or ('<types>', strict_where(keep, raw))
        ctx.fail('C11.rt/decode-mutates-input:%s' % cname, 'first difference %r' % (dj,))
        return
    second = json_to_pmutt(raw)
    if type(second) is not type(first):
        ctx.fail('C11.rt/decode-not-repeatable:%s' % cname, '%s then %s' % (type(first).__name__, type(second).__name__))


def class_clause(cls, quick, thorough):
    return Clause('C11.%s' % cls, obj_desc(cls=cls), check_rt, quick, thorough,
                  '%s objects with arbitrary valid attribute values (optional attributes set or not, nested species / models), '
                  '1-3 encode/decode cycles; non-trivial = nested object or a non-default optional attribute' % cls)


GROUPS = {
    'modes': ['FreeTrans', 'HarmonicVib', 'QRRHOVib', 'EinsteinVib', 'DebyeVib', 'RigidRotor', 'GroundStateElec', 'EmptyNucl',
              'EmptyMode', 'ConstantMode', 'LSR', 'ExtendedLSR'],
    'species': ['StatMech', 'Nasa', 'Nasa9', 'SingleNasa9', 'Shomate'],
    'aux': ['Reference', 'References', 'GasPressureAdj', 'PiecewiseCovEffect', 'CatSite', 'BEP', 'omkmBEP', 'IdealGasEOS',
            'vanDerWaalsEOS'],
    'reactions': ['Reaction', 'ChemkinReaction', 'SurfaceReaction', 'Reactions', 'PhaseDiagram'],
}
CHEAP = {'EmptyNucl', 'EmptyMode', 'GasPressureAdj', 'IdealGasEOS'}
CLAUSES = [class_clause(c_, 3 if c_ in CHEAP else 150, 3 if c_ in CHEAP else 400) for g in GROUPS.values() for c_ in g]
ASSUMPTIONS = ['equality is judged by the harness (class, constructor-parameter attributes recursively, getter values at two (T,P,x) '
               'points, printed reaction string), never by __eq__/to_dict',
               'one signature per (class, first differing attribute / getter): root causes are enumerated, not only the first']

"""C03 - fitted polynomials anchor to the reference, join continuously, track the source."""
import math

import numpy as np
from hypothesis import strategies as st

from vf import gen, ref
from vf.core import Clause
from vf.p02 import R_UNITS


class PolySource:
    """duck-typed source model: Cp/R, H/RT, S/R from a polynomial of the target family (or constant / zero Cp)"""

    def __init__(self, family, a, R_unit=None):
        self.family, self.a, self.R_unit = family, list(a), R_unit

    def _terms(self, T):
        if self.family == 'nasa7':
            return ref.nasa7_terms(self.a, T)
        if self.family == 'nasa9':
            return ref.nasa9_terms(self.a, T)
        return ref.shomate_terms(self.a, T, self.R_unit)

    def _eval(self, T, k):
        if np.ndim(T):
            return np.array([math.fsum(self._terms(float(t))[k]) for t in T])
        return math.fsum(self._terms(float(T))[k])

    def get_CpoR(self, T):
        return self._eval(T, 0)

    def get_HoRT(self, T):
        return self._eval(T, 1)

    def get_SoR(self, T):
        return self._eval(T, 2)


@st.composite
def window(draw):
    lo = draw(st.floats(100, 2500))
    hi = draw(st.floats(min(lo + 150, 3000), 3000))
    if hi - lo < 150:
        lo = hi - 150
    return lo, hi


@st.composite
def source(draw, family):
    kind = draw(st.sampled_from(['statmech', 'statmech', 'poly', 'poly', 'const', 'zero']))
    if kind == 'statmech':
        d = draw(gen.statmech_desc(name='X', vib_kinds=('harmonic', 'harmonic', 'harmonic', 'einstein'), gas=draw(st.booleans()),
                                   allow_imag=False))
        if d['vib']['kind'] == 'harmonic' and not d['vib']['wn']:
            d['vib']['wn'] = [draw(gen.logf(100, 3000))]
        if d['elec'] is None:
            d['elec'] = {'E': draw(st.floats(-20, 0)), 'spin': 0}
        else:
            d['elec']['E'] = draw(st.floats(-20, 0))
        return {'kind': 'statmech', 'species': d}
    if kind == 'poly':
        if family == 'nasa7':
            a = [draw(st.floats(2, 12)), draw(st.floats(-3e-3, 3e-3)), draw(st.floats(-2e-6, 2e-6)),
                 draw(st.floats(-6e-10, 6e-10)), draw(st.floats(-1e-13, 1e-13)), draw(st.floats(-3e4, 3e4)), draw(st.floats(-20, 30))]
        elif family == 'nasa9':
            a = [draw(st.floats(-5e4, 5e4)), draw(st.floats(-300, 300)), draw(st.floats(2, 12)), draw(st.floats(-3e-3, 3e-3)),
                 draw(st.floats(-2e-6, 2e-6)), draw(st.floats(-6e-10, 6e-10)), draw(st.floats(-1e-13, 1e-13)),
                 draw(st.floats(-3e4, 3e4)), draw(st.floats(-20, 30))]
        else:
            a = [draw(st.floats(20, 80)), draw(st.floats(-30, 30)), draw(st.floats(-10, 10)), draw(st.floats(-2, 2)),
                 draw(st.floats(-0.5, 0.5)), draw(st.floats(-300, 100)), draw(st.floats(150, 300)), 0.0]
        return {'kind': 'poly', 'a': a}
    if kind == 'const':
        return {'kind': 'const', 'cp': draw(st.floats(1, 20)), 'h0': draw(st.floats(-3e4, 3e4)), 's0': draw(st.floats(-20, 30))}
    return {'kind': 'zero', 'E': draw(st.floats(-20, 0))}


def build_source(src, family, units_R):
    if src['kind'] == 'statmech':
        return gen.build_statmech(src['species'])
    if src['kind'] == 'poly':
        return PolySource({'nasa7': 'nasa7', 'nasa9': 'nasa9', 'shomate': 'shomate'}[family], src['a'], units_R)
    if src['kind'] == 'const':
        return PolySource('nasa7', [src['cp'], 0, 0, 0, 0, src['h0'], src['s0']])
    # zero Cp: a species with electronic energy only (no vibrations listed)
    return gen.build_statmech({'cls': 'StatMech', 'name': 'X', 'trans': None, 'vib': None, 'rot': None,
                               'elec': {'E': src['E'], 'spin': 0}, 'nucl': False})


@st.composite
def fit_case(draw, family):
    lo, hi = draw(window())
    nT = draw(st.integers(15, 200))
    src = draw(source(family))
    route = draw(st.sampled_from(['from_data', 'from_data', 'from_model']))
    case = {'family': family, 'T_low': lo, 'T_high': hi, 'n_T': nT, 'source': src, 'route': route,
            'T_ref_u': draw(st.floats(0, 1)), 'units': draw(st.sampled_from(R_UNITS)) if family == 'shomate' else None}
    if family == 'nasa7':
        how = draw(st.sampled_from(['none', 'scalar', 'list']))
        # candidates leave at least 5 data points on either side
        k = draw(st.lists(st.floats(0.0, 1.0), min_size=1, max_size=5))
        case.update({'T_mid_how': how, 'T_mid_u': k})
    if family == 'nasa9':
        nint = draw(st.sampled_from([1, 2, 2, 3, 3]))
        # every interval keeps >= 9 data points for its 7-parameter heat-capacity fit
        case['n_T'] = nT = max(nT, 12 * nint)
        cuts = {1: [], 2: [draw(st.floats(0.35, 0.65))],
                3: [draw(st.floats(0.3, 0.36)), draw(st.floats(0.64, 0.7))]}[nint]
        case.update({'n_interval': nint, 'cuts': cuts, 'fit_T_mid': draw(st.booleans()),
                     'T_mid_given': draw(st.booleans())})
    return case


THRESH = {'nasa7': None, 'nasa9-1': None, 'nasa9-n': None, 'shomate': None}


def _grid(case):
    return np.linspace(case['T_low'], case['T_high'], case['n_T'])


def check_fit(case, ctx):
    from pmutt import constants as c
    fam = case['family']
    src = case['source']
    units_R = c.R(case['units']) if case['units'] else None
    model = build_source(src, fam, units_R)
    T = _grid(case)
    lo, hi = float(T[0]), float(T[-1])
    route = case['route']
    ctx.label('source:' + src['kind'], 'route:' + route)
    T_ref = lo + case['T_ref_u'] * (hi - lo)
    kw = {}
    # the caller's data arrays (from_data route): handed over as numpy arrays and owned by the caller
    T_in = np.array(T, dtype=float)
    Cp_in = np.asarray([model.get_CpoR(T=float(t)) for t in T], dtype=float) if route == 'from_data' else None
    T_keep, Cp_keep = T_in.copy(), (None if Cp_in is None else Cp_in.copy())
    # ---------------- build the fit ----------------------------------------------
    if fam == 'nasa7':
        from pmutt.empirical.nasa import Nasa
        inner = T[5:-5] if len(T) > 10 else T[len(T) // 2:len(T) // 2 + 1]
        cands = [float(inner[min(len(inner) - 1, int(u * len(inner)))]) for u in case['T_mid_u']]
        T_mid = None if case['T_mid_how'] == 'none' else (cands[0] if case['T_mid_how'] == 'scalar' else list(dict.fromkeys(cands)))     # candidates in the order drawn, not sorted
        ctx.label('T_mid:' + case['T_mid_how'])
        if route == 'from_model':
            obj = Nasa.from_model(model=model, name='fit', T_low=lo, T_high=hi, T_mid=T_mid, n_T=case['n_T'],
                                  elements={'H': 2})
            T_ref = 0.5 * (lo + hi)
        else:
            obj = Nasa.from_data(name='fit', T=T_in, CpoR=Cp_in,
                                 T_ref=T_ref, HoRT_ref=float(model.get_HoRT(T=T_ref)), SoR_ref=float(model.get_SoR(T=T_ref)),
                                 T_mid=T_mid, elements={'H': 2})
        breaks = [float(obj.T_mid)]
        segs = [(lo, breaks[0], list(obj.a_low), 'nasa7'), (breaks[0], hi, list(obj.a_high), 'nasa7')]
        thresh = THRESH['nasa7']
        nseg = 2
    elif fam == 'nasa9':
        from pmutt.empirical.nasa import Nasa9
        nint = case['n_interval']
        T_mid = [lo + u * (hi - lo) for u in case['cuts']]
        ctx.label('intervals:%d' % nint)
        if route == 'from_model':
            if nint == 1 and case['fit_T_mid']:
                # nothing to optimise for a single interval
                kw['fit_T_mid'] = False
                obj = Nasa9.from_model(name='fit', model=model, T_low=lo, T_high=hi, T_mid=[], n_interval=1, n_T=case['n_T'],
                                       elements={'H': 2}, **kw)
            else:
                try:
                    obj = Nasa9.from_model(name='fit', model=model, T_low=lo, T_high=hi,
                                           T_mid=(T_mid if (case['T_mid_given'] or not case['fit_T_mid']) else None),
                                           n_interval=nint, n_T=max(15, case['n_T'] // nint), fit_T_mid=case['fit_T_mid'],
                                           elements={'H': 2})
                except (TypeError, ValueError, np.linalg.LinAlgError) as e:
                    from vf.core import exc_site
                    if case['fit_T_mid'] and nint >= 2 and exc_site(e) is not None:
                        # the unconstrained Nelder-Mead search over break temperatures let an interval run empty
                        ctx.fail('C03.nasa9/T_mid-search-leaves-an-interval-without-data', '%s: %s' % (type(e).__name__, e))
                        return
                    raise
            T_ref = lo
        else:
            obj = Nasa9.from_data(name='fit', T=T_in, CpoR=Cp_in,
                                  T_ref=T_ref, HoRT_ref=float(model.get_HoRT(T=T_ref)), SoR_ref=float(model.get_SoR(T=T_ref)),
                                  T_mid=T_mid, elements={'H': 2})
        nas = sorted(obj.nasas, key=lambda s: s.T_low)
        breaks = [float(s.T_high) for s in nas[:-1]]
        segs = [(float(s.T_low), float(s.T_high), list(np.asarray(s.a, dtype=float)), 'nasa9') for s in nas]
        nseg = len(segs)
        thresh = THRESH['nasa9-1' if nseg == 1 else 'nasa9-n']
        if route == 'from_data' and breaks and T_ref > breaks[0]:
            ctx.label('T_ref-above-first-break')
    else:
        from pmutt.empirical.shomate import Shomate
        u = case['units']
        ctx.label('units:' + u)
        if route == 'from_model':
            obj = Shomate.from_model(model=model, name='fit', T_low=lo, T_high=hi, n_T=case['n_T'], units=u, elements={'H': 2})
            T_ref = 0.5 * (lo + hi)
        else:
            obj = Shomate.from_data(name='fit', T=T_in, CpoR=Cp_in,
                                    T_ref=T_ref, HoRT_ref=float(model.get_HoRT(T=T_ref)), SoR_ref=float(model.get_SoR(T=T_ref)),
                                    units=u, elements={'H': 2})
        breaks = []
        segs = [(lo, hi, list(np.asarray(obj.a, dtype=float)), 'shomate')]
        nseg = 1
        thresh = THRESH['shomate']
    tag = 'C03.%s' % fam
    if route == 'from_data':
        # fitting must not consume its input: the arrays are unchanged and a second fit from them is the same fit
        if not (np.array_equal(T_in, T_keep) and np.array_equal(Cp_in, Cp_keep)):
            ctx.fail(tag + '/input-arrays-modified', 'max |dT| %.3g, max |dCp/R| %.3g after from_data' % (
                float(np.max(np.abs(T_in - T_keep))), float(np.max(np.abs(Cp_in - Cp_keep)))))
            return
    ctx.nontrivial((nseg >= 2 and breaks and T_ref > breaks[0]) or src['kind'] == 'zero' or
                   (fam == 'shomate' and case['units'] != 'J/mol/K'))

    def seg_terms(seg, Tq):
        lo_, hi_, a, f = seg
        if f == 'nasa7':
            return ref.nasa7_terms(a, Tq)
        if f == 'nasa9':
            return ref.nasa9_terms(a, Tq)
        return ref.shomate_terms(a, Tq, units_R)
    # ---------------- bounds ---------------------------------------------------------
    if fam == 'nasa9':
        got_lo, got_hi = float(obj.T_low), float(obj.T_high)
    else:
        got_lo, got_hi = float(obj.T_low), float(obj.T_high)
    if got_lo != lo or got_hi != hi:
        ctx.fail(tag + '/bounds', 'T_low,T_high = %r,%r data span %r,%r' % (got_lo, got_hi, lo, hi))
    for b in breaks:
        if not (lo < b < hi):
            ctx.fail(tag + '/break-not-inside', 'break %r outside (%r, %r)' % (b, lo, hi))
    # ---------------- anchor ----------------------------------------------------------
    H_ref = float(model.get_HoRT(T=T_ref))
    S_ref = float(model.get_SoR(T=T_ref))
    Hf = float(np.ravel(obj.get_HoRT(T=T_ref))[0])
    Sf = float(np.ravel(obj.get_SoR(T=T_ref))[0])
    # scale of the cancelling polynomial terms at T_ref
    k = max(0, min(nseg - 1, sum(1 for b in breaks if T_ref >= b))) if fam != 'nasa9' else \
        next((i for i, s in enumerate(segs) if s[0] <= T_ref <= s[1]), 0)
    tcp, th, ts = seg_terms(segs[k], T_ref)
    hs, ss = ref.tsum(th)[1], ref.tsum(ts)[1]
    ctx.close(tag + '/anchor:H', Hf, H_ref, rtol=1e-9, atol=1e-9 * (1 + hs), detail='T_ref=%r segment %d/%d' % (T_ref, k, nseg))
    ctx.close(tag + '/anchor:S', Sf, S_ref, rtol=1e-9, atol=1e-9 * (1 + ss), detail='T_ref=%r segment %d/%d' % (T_ref, k, nseg))
    # ---------------- continuity at interior breaks ---------------------------------
    for i, b in enumerate(breaks):
        tl = seg_terms(segs[i], b)
        tr = seg_terms(segs[i + 1], b)
        for name, idx in (('H', 1), ('S', 2)):
            a_, sa = ref.tsum(tl[idx])
            b_, sb = ref.tsum(tr[idx])
            ctx.close(tag + '/continuity:%s' % name, a_, b_, rtol=0, atol=1e-8 * (1 + sa + sb),
                      detail='break %d at %r' % (i, b))
    # ---------------- reproduction / tracking ------------------------------------------
    Tq = np.linspace(lo, hi, 25)
    Cm = np.array([float(model.get_CpoR(T=float(t))) for t in Tq])
    Hm = np.array([float(model.get_HoRT(T=float(t))) for t in Tq])
    Sm = np.array([float(model.get_SoR(T=float(t))) for t in Tq])
    Cf = np.array([float(np.ravel(obj.get_CpoR(T=float(t)))[0]) for t in Tq])
    Hf_ = np.array([float(np.ravel(obj.get_HoRT(T=float(t)))[0]) for t in Tq])
    Sf_ = np.array([float(np.ravel(obj.get_SoR(T=float(t)))[0]) for t in Tq])
    cnorm = max(1.0, float(np.max(np.abs(Cm))))
    eC = float(np.max(np.abs(Cf - Cm))) / cnorm
    eH = float(np.max(np.abs(Hf_ - Hm)))
    eS = float(np.max(np.abs(Sf_ - Sm))) / cnorm
    exact_family = (src['kind'] == 'poly') or (src['kind'] in ('const', 'zero'))
    if exact_family:
        tolC = {'nasa7': 1e-7, 'nasa9': 3e-6, 'shomate': 1e-5}[fam]
        ctx.close(tag + '/exact:Cp', eC, 0.0, rtol=0, atol=tolC, detail='source %s' % src['kind'])
    else:
        ctx.label('track')
    # H and S follow from Cp by integration from the anchor: with exact anchoring and continuity
    #   |dH/RT|(T) <= sup|dCp/R| |T - T_ref| / T      and     |dS/R|(T) <= sup|dCp/R| |ln(T/T_ref)|
    Td = np.linspace(lo, hi, 400)
    eCsup = max(float(np.max(np.abs(np.array([float(np.ravel(obj.get_CpoR(T=float(t)))[0]) for t in Td]) -
                                    np.array([float(model.get_CpoR(T=float(t))) for t in Td])))),
                float(np.max(np.abs(Cf - Cm))))
    slack = 1.25 * eCsup
    hscale = 1 + float(np.max(np.abs(Hm))) + hs
    sscale = 1 + float(np.max(np.abs(Sm))) + ss
    kind = 'exact' if exact_family else 'track'
    bH = slack * np.abs(Tq - T_ref) / Tq + 1e-8 * hscale
    bS = slack * np.abs(np.log(Tq / T_ref)) + 1e-8 * sscale
    if np.any(np.abs(Hf_ - Hm) > bH):
        j = int(np.argmax(np.abs(Hf_ - Hm) - bH))
        ctx.fail(tag + '/%s:H' % kind, '|dH/RT| = %.3g at T=%.1f exceeds sup|dCp/R| |T-T_ref|/T = %.3g (sup|dCp/R| = %.3g)' % (
            abs(Hf_[j] - Hm[j]), Tq[j], bH[j], eCsup))
    if np.any(np.abs(Sf_ - Sm) > bS):
        j = int(np.argmax(np.abs(Sf_ - Sm) - bS))
        ctx.fail(tag + '/%s:S' % kind, '|dS/R| = %.3g at T=%.1f exceeds sup|dCp/R| |ln(T/T_ref)| = %.3g (sup|dCp/R| = %.3g)' % (
            abs(Sf_[j] - Sm[j]), Tq[j], bS[j], eCsup))
    # differential: the library's heat-capacity fit is as good as an independent least-squares fit of the same form
    # on the same data (same split / same weighting); floor 2e-4 for the conditioning of the library's raw-T Vandermonde
    if src['kind'] in ('statmech', 'poly'):
        if fam == 'nasa9' and route == 'from_model':
            Tdat = np.concatenate([np.linspace(s_[0], s_[1], max(15, case['n_T'] // max(1, len(segs)))) for s_ in segs])
        else:
            Tdat = T
        Cd = np.array([float(model.get_CpoR(T=float(t))) for t in Tdat])
        got = np.array([float(np.ravel(obj.get_CpoR(T=float(t)))[0]) for t in Tdat])
        # a data point exactly on a break is fitted with one segment and evaluated with the other (the C02 rule):
        # its residual is the Cp jump of the piecewise form, not fit quality
        offb = ~np.isin(Tdat, np.asarray(breaks, dtype=float)) if len(breaks) else np.ones(len(Tdat), dtype=bool)

        def rms_lib(w):
            return float(np.sqrt(np.sum(((got - Cd) * w)[offb] ** 2) / len(Tdat)))

        def lsq_resid(x, y, deg):
            xs = (x - x.mean()) / (x.std() + 1e-300)
            A = np.stack([xs ** k_ for k_ in range(deg + 1)], axis=1)
            return A @ np.linalg.lstsq(A, y, rcond=None)[0] - y
        if fam == 'shomate':
            tt = Tdat / 1000.0
            A = np.stack([np.ones_like(tt), tt, tt ** 2, tt ** 3, 1.0 / tt ** 2], axis=1)
            r_ref = float(np.sqrt(np.mean((A @ np.linalg.lstsq(A, Cd, rcond=None)[0] - Cd) ** 2)))
            r_lib = rms_lib(1.0)
            norm = cnorm
        elif fam == 'nasa7':
            tm = breaks[0]
            r2 = 0.0
            for mask in (Tdat <= tm, Tdat > tm):
                if mask.sum() >= 6:
                    r2 += float(np.sum(lsq_resid(Tdat[mask], Cd[mask], 4) ** 2))
            r_ref = math.sqrt(r2 / len(Tdat))
            r_lib = rms_lib(1.0)
            norm = cnorm
        else:
            # NASA-9 fits Cp T^2 by a 6th-order polynomial on each interval: compare in that space
            r2 = 0.0
            for s_ in segs:
                mask = (Tdat > s_[0]) & (Tdat <= s_[1]) if s_ is not segs[0] else (Tdat >= s_[0]) & (Tdat <= s_[1])
                if mask.sum() >= 8:
                    r2 += float(np.sum(lsq_resid(Tdat[mask], Cd[mask] * Tdat[mask] ** 2, 6) ** 2))
            r_ref = math.sqrt(r2 / len(Tdat))
            r_lib = rms_lib(Tdat ** 2)
            norm = cnorm * float(np.mean(Tdat ** 2))
        if fam == 'nasa9' and r_lib > 5.0 * r_ref + 2e-4 * norm:
            # root-cause split: _fit_CpoR9 selects (T > T1) & (T <= T2) on every interval, so the datum at T_low is
            # never fitted; if the fit is as good as the reference on the data it did use, that is the cause
            keep = offb & (Tdat > segs[0][0])
            r_lib2 = float(np.sqrt(np.sum(((got - Cd) * Tdat ** 2)[keep] ** 2) / len(Tdat)))
            r2 = 0.0
            for s_ in segs:
                mask = (Tdat > s_[0]) & (Tdat <= s_[1])
                if mask.sum() >= 8:
                    r2 += float(np.sum(lsq_resid(Tdat[mask], Cd[mask] * Tdat[mask] ** 2, 6) ** 2))
            if r_lib2 <= 5.0 * math.sqrt(r2 / len(Tdat)) + 2e-4 * norm:
                ctx.fail(tag + '/fit-worse-than-reference-lsq:datum-at-T_low-not-fitted',
                         'rms residual %.3g vs reference least squares %.3g (norm %.3g); %.3g without the T_low datum' % (
                             r_lib, r_ref, norm, r_lib2))
                return
        if r_lib > (5.0 if fam == 'nasa9' else 3.0) * r_ref + 2e-4 * norm:
            ctx.fail(tag + '/fit-worse-than-reference-lsq', 'rms residual %.3g vs reference least squares %.3g (norm %.3g)' % (
                r_lib, r_ref, norm))


CLAUSES = [
    Clause('C03.nasa7', fit_case('nasa7'), check_fit, 300, 1500,
           'Nasa.from_data / from_model on sources {StatMech gas or adsorbate, NASA-7 polynomial, constant Cp, zero Cp}, window '
           '100<=T_low<T_high<=3000 (>=150 K), n_T 15-200, T_mid None / scalar / list of 1-5 candidates, T_ref anywhere (from_data): '
           'anchor at T_ref, continuity of H and S at T_mid (reference basis functions on each segment\'s coefficients), bounds = data '
           'span and T_mid strictly inside, exact reproduction for polynomial sources (1e-9), tracking thresholds for StatMech. '
           'Non-trivial = T_ref in the upper segment or the zero-Cp path', quick_shards=3),
    Clause('C03.nasa9', fit_case('nasa9'), check_fit, 150, 800,
           'Nasa9.from_data (given breaks, T_ref anywhere) / from_model (fit_T_mid on/off, breaks given or None) with 1-3 intervals; '
           'same oracles per interior break', quick_shards=4, budget_s=(100, 1500)),
    Clause('C03.shomate', fit_case('shomate'), check_fit, 250, 1200,
           'Shomate.from_data / from_model in every fitting unit of constants.R; same oracles (exact reproduction at 1e-6). '
           'Non-trivial = non-default unit or the zero-Cp path', quick_shards=3),
]
ASSUMPTIONS = ['tracking of H and S is judged by the integral bounds |dH/RT| <= sup|dCp/R| |T-T_ref|/T and |dS/R| <= sup|dCp/R| |ln T/T_ref| '
               '(sup over 400 points, slack 1.25); Cp tracking by rms residual <= 3x an independent least-squares fit of the same form on the '
               'same data (+2e-4 of the Cp scale)',
               'continuity and anchors are judged relative to the sum of |polynomial terms| (a6/T and a7 are large and cancel)']

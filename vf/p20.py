"""C20 - equations of state invert consistently."""
import math

import numpy as np

from hypothesis import strategies as st

from vf.core import Clause

BAR = 1.0e5  # Pa per bar (definition)


def logf(lo, hi):
    return st.floats(math.log(lo), math.log(hi)).map(lambda v: float(math.exp(v)))


def _R():
    from pmutt import constants as c
    return c.R('J/mol/K')


# ---------------------------------------------------------------------------
ideal_strategy = st.fixed_dictionaries({
    'T': logf(50, 3000), 'P': logf(1e-3, 1e3), 'n': logf(1e-3, 1e3),
    'k': logf(1e-2, 1e2)})


def check_ideal(case, ctx):
    from pmutt.eos import IdealGasEOS
    T, P, n, k = case['T'], case['P'], case['n'], case['k']
    eos = IdealGasEOS()
    V = eos.get_V(T=T, P=P, n=n)
    ctx.nontrivial(True)
    # independent value: V = nRT/P with R in J/mol/K and P in Pa
    ctx.close('C20.ideal/V-definition', V, n * _R() * T / (P * BAR), rtol=1e-9)
    ctx.close('C20.ideal/P-roundtrip', eos.get_P(T=T, V=V, n=n), P, rtol=1e-12)
    ctx.close('C20.ideal/T-roundtrip', eos.get_T(V=V, P=P, n=n), T, rtol=1e-12)
    ctx.close('C20.ideal/n-roundtrip', eos.get_n(V=V, P=P, T=T), n, rtol=1e-12)
    ctx.close('C20.ideal/V-linear-in-n', eos.get_V(T=T, P=P, n=k * n), k * V, rtol=1e-12)
    # start from each of the other three
    P2 = eos.get_P(T=T, V=V * k, n=n)
    ctx.close('C20.ideal/V-from-P', eos.get_V(T=T, P=P2, n=n), V * k, rtol=1e-12)
    T2 = eos.get_T(V=V, P=P, n=n * k)
    ctx.close('C20.ideal/n-from-T', eos.get_n(V=V, P=P, T=T2), n * k, rtol=1e-12)
    # documented defaults of every getter: T = 298.15 K, P = 1 bar, n = 1 mol (each omitted in turn)
    T0_, P0_ = 298.15, 1.0
    ctx.close('C20.ideal/defaults:all-getters',
              [eos.get_n(V=V, T=T), eos.get_n(V=V, P=P), eos.get_T(V=V, n=n), eos.get_P(V=V, n=n), eos.get_P(T=T, n=n) * 0 + eos.get_P(V=V, T=T)],
              [eos.get_n(V=V, P=P0_, T=T), eos.get_n(V=V, P=P, T=T0_), eos.get_T(V=V, P=P0_, n=n), eos.get_P(V=V, T=T0_, n=n),
               eos.get_P(V=V, T=T, n=1.0)], rtol=1e-12)
    # documented defaults: one mole, 298.15 K, 1 bar
    V1 = eos.get_V(T=T, P=P, n=1.)
    ctx.close('C20.ideal/defaults:n', [eos.get_V(T=T, P=P), eos.get_P(T=T, V=V1), eos.get_T(V=V1, P=P)], [V1, P, T], rtol=1e-12)
    ctx.close('C20.ideal/defaults:T,P', [eos.get_V(n=n), eos.get_V(T=T, n=n), eos.get_V(P=P, n=n)],
              [eos.get_V(T=298.15, P=1.0, n=n), eos.get_V(T=T, P=1.0, n=n), eos.get_V(T=298.15, P=P, n=n)], rtol=1e-12)


# ---------------------------------------------------------------------------
def _vdw_params():
    direct = st.fixed_dictionaries({'mode': st.just('ab'), 'a': logf(0.003, 3.0),
                                    'b': logf(1e-5, 2e-4)})
    crit = st.fixed_dictionaries({'mode': st.just('crit'), 'Tc': logf(5, 1000),
                                  'Pc': logf(1, 300)})
    return st.one_of(direct, crit)


def _vdw_state():
    free = st.fixed_dictionaries({'kind': st.just('free'), 'T': logf(50, 3000),
                                  'P': logf(1e-3, 1e3)})
    # reduced coordinates so that sub-critical three-root states are common;
    # clipped into the property's T, P box by build()
    red = st.fixed_dictionaries({'kind': st.just('reduced'), 'Tr': st.floats(0.3, 1.5),
                                 'Pr': logf(1e-3, 3.0)})
    nearc = st.fixed_dictionaries({'kind': st.just('reduced'), 'Tr': st.floats(0.985, 1.015),
                                   'Pr': st.floats(0.96, 1.04)})
    # a pressure read off the isotherm at a liquid-like volume b(1+u): the
    # cubic then has that volume as a root, usually with two more above it
    iso = st.fixed_dictionaries({'kind': st.just('isotherm'), 'Tr': st.floats(0.4, 0.99),
                                 'u': st.floats(0.2, 2.0)})
    return st.one_of(free, red, iso, iso, nearc)


vdw_strategy = st.fixed_dictionaries({
    'par': _vdw_params(), 'state': _vdw_state(), 'n': logf(1e-3, 1e3),
    'k': logf(1e-2, 1e2), 'gas': st.booleans()})


def _build_vdw(case):
    from pmutt.eos import vanDerWaalsEOS
    par = case['par']
    if par['mode'] == 'ab':
        eos = vanDerWaalsEOS(a=par['a'], b=par['b'])
    else:
        eos = vanDerWaalsEOS.from_critical(Tc=par['Tc'], Pc=par['Pc'])
    return eos


def _clip(x, lo, hi):
    return min(max(x, lo), hi)


def check_vdw(case, ctx):
    R = _R()
    eos = _build_vdw(case)
    a, b = float(eos.a), float(eos.b)
    Tc = 8 * a / (27 * R * b)
    Pc = a / (27 * b * b) / BAR
    stt = case['state']
    if stt['kind'] == 'free':
        T, P = stt['T'], stt['P']
    elif stt['kind'] == 'isotherm':
        T = _clip(stt['Tr'] * Tc, 50.0, 3000.0)
        v = b * (1 + stt['u'])
        P = _clip((R * T / (v - b) - a / v ** 2) / BAR, 1e-3, 1e3)
    else:
        T = _clip(stt['Tr'] * Tc, 50.0, 3000.0)
        P = _clip(stt['Pr'] * Pc, 1e-3, 1e3)
    n, k, gas = case['n'], case['k'], case['gas']
    P_SI = P * BAR
    near_crit = abs(T / Tc - 1) < 0.02 and abs(P / Pc - 1) < 0.05
    ctx.label('T<Tc' if T < Tc else 'T>=Tc', 'gas-root' if gas else 'liquid-root')
    if near_crit:
        ctx.label('near-critical')

    V = eos.get_V(T=T, P=P, n=n, gas_phase=gas)
    Vm = V / n
    Vd = eos.get_V(T=T, P=P, n=1., gas_phase=gas)
    ctx.close('C20.vdw/defaults:n', [eos.get_P(T=T, V=Vd), eos.get_T(V=Vd, P=P)],
              [eos.get_P(T=T, V=Vd, n=1.), eos.get_T(V=Vd, P=P, n=1.)], rtol=1e-13)
    ctx.close('C20.vdw/defaults:all-getters',
              [eos.get_n(V=V, T=T, gas_phase=gas), eos.get_n(V=V, P=P, gas_phase=gas), eos.get_T(V=V, n=n), eos.get_P(V=V, n=n),
               eos.get_V(P=P, n=n, gas_phase=gas), eos.get_V(T=T, n=n, gas_phase=gas)],
              [eos.get_n(V=V, P=1.0, T=T, gas_phase=gas), eos.get_n(V=V, P=P, T=298.15, gas_phase=gas),
               eos.get_T(V=V, P=1.0, n=n), eos.get_P(V=V, T=298.15, n=n),
               eos.get_V(T=298.15, P=P, n=n, gas_phase=gas), eos.get_V(T=T, P=1.0, n=n, gas_phase=gas)], rtol=1e-12)
    # the root selector is a truth value: a NumPy boolean (e.g. the result of an array comparison) selects the same root
    ctx.close('C20.vdw/gas_phase-numpy-bool', [eos.get_V(T=T, P=P, n=n, gas_phase=np.bool_(gas)),
                                               eos.get_Vm(T=T, P=P, gas_phase=np.bool_(gas)),
                                               eos.get_n(V=V, T=T, P=P, gas_phase=np.bool_(gas))],
              [V, eos.get_Vm(T=T, P=P, gas_phase=gas), eos.get_n(V=V, T=T, P=P, gas_phase=gas)], rtol=0)
    # the explicit inverses work element-wise on arrays of volumes; the caller's array is left alone and a second
    # call on it gives the same answer (one mole - the default - and n moles)
    for n_ in (1., n):
        Va = np.array([V / n * n_, 2 * V / n * n_, Vd * n_])
        Va0 = Va.copy()
        Ta = eos.get_T(V=Va, P=P, n=n_)
        Pa = eos.get_P(T=T, V=Va, n=n_)
        if not np.array_equal(Va, Va0):
            ctx.fail('C20.vdw/array-argument-mutated', 'V before %r after %r (n=%r)' % (Va0.tolist(), Va.tolist(), n_))
        ctx.close('C20.vdw/array=scalars:T', list(np.ravel(Ta)), [eos.get_T(V=float(v), P=P, n=n_) for v in Va0], rtol=1e-12,
                  detail='n=%r' % n_)
        for v, p_arr in zip(Va0, np.ravel(Pa)):
            # P = RT/(v-b) - a/v^2 cancels: the two evaluation orders may differ by rounding of the terms, not of the result
            vm = float(v) / n_
            terms = (R * T / abs(vm - b) + a / vm ** 2) / BAR
            ctx.close('C20.vdw/array=scalars:P', p_arr, eos.get_P(T=T, V=float(v), n=n_), rtol=0, atol=1e-13 * terms,
                      detail='n=%r V=%r' % (n_, float(v)))
    # documented defaults: one mole, the gas-like root
    ctx.close('C20.vdw/defaults', [eos.get_V(T=T, P=P, gas_phase=gas), eos.get_V(T=T, P=P, n=n), eos.get_Vm(T=T, P=P)],
              [eos.get_V(T=T, P=P, n=1., gas_phase=gas), eos.get_V(T=T, P=P, n=n, gas_phase=True),
               eos.get_Vm(T=T, P=P, gas_phase=True)], rtol=1e-13)
    # --- Vm is a root of P V^3 - (P b + R T) V^2 + a V - a b ---------------
    terms = [P_SI * Vm ** 3, -(P_SI * b + R * T) * Vm ** 2, a * Vm, -a * b]
    scale = sum(abs(t) for t in terms)
    resid = sum(terms)
    res_tol = 1e-3 if near_crit else 1e-10
    if not (Vm > b and math.isfinite(Vm)):
        ctx.fail('C20.vdw/Vm-not-above-b', 'Vm=%r b=%r' % (Vm, b))
        return
    if abs(resid) > res_tol * scale:
        ctx.fail('C20.vdw/not-a-root', 'residual %g scale %g' % (resid, scale))
    # --- root selection: deflate by Vm, look at the quadratic cofactor ------
    # (Vieta, in the cancellation-free form: r1 r2 = a b/(P Vm),
    #  r1 + r2 = a (1 - b/Vm)/(P Vm))
    c2 = P_SI
    c1 = -a * (1 - b / Vm) / Vm
    c0 = a * b / Vm
    disc = c1 * c1 - 4 * c2 * c0
    dscale = c1 * c1 + abs(4 * c2 * c0)
    three = False
    if disc > 1e-6 * dscale:
        sq = math.sqrt(disc)
        q = -0.5 * (c1 + math.copysign(sq, c1))
        r1, r2 = sorted([q / c2, c0 / q])
        three = True
        ctx.label('three-real-roots')
        tol = 1e-7 * max(abs(r1), abs(r2), Vm)
        if gas and not (Vm >= r2 - tol):
            ctx.fail('C20.vdw/gas-root-not-largest', 'Vm=%r others=%r,%r' % (Vm, r1, r2))
        if (not gas) and not (Vm <= r1 + tol):
            ctx.fail('C20.vdw/liquid-root-not-smallest', 'Vm=%r others=%r,%r' % (Vm, r1, r2))
    elif disc < -1e-6 * dscale:
        ctx.label('one-real-root')
    else:
        ctx.label('near-double-root')
    ctx.nontrivial(three and not gas)

    # --- inversions ---------------------------------------------------------
    tolP = (res_tol * 10) * scale / (Vm * Vm * abs(Vm - b)) / BAR + 1e-12 * P
    tolT = (res_tol * 10) * scale / (R * Vm * Vm) + 1e-12 * T
    ctx.close('C20.vdw/P-roundtrip', eos.get_P(T=T, V=V, n=n), P, rtol=0, atol=tolP)
    ctx.close('C20.vdw/T-roundtrip', eos.get_T(V=V, P=P, n=n), T, rtol=0, atol=tolT)
    ctx.close('C20.vdw/n-roundtrip', eos.get_n(V=V, P=P, T=T, gas_phase=gas), n, rtol=1e-12)
    ctx.close('C20.vdw/V-linear-in-n', eos.get_V(T=T, P=P, n=k * n, gas_phase=gas), k * V,
              rtol=1e-12)
    ctx.close('C20.vdw/Vm-is-V-per-mole', eos.get_Vm(T=T, P=P, gas_phase=gas), Vm, rtol=1e-12)
    # P and T from an arbitrary volume (no root finding involved): exact algebra
    V2 = V * (1 + k)
    P2 = eos.get_P(T=T, V=V2, n=n)
    Vm2 = V2 / n
    ctx.close('C20.vdw/P-definition', P2 * BAR, R * T / (Vm2 - b) - a / Vm2 ** 2,
              rtol=1e-9, atol=1e-9 * (R * T / (Vm2 - b) + a / Vm2 ** 2))
    ctx.close('C20.vdw/T-of-P', eos.get_T(V=V2, P=P2, n=n), T,
              rtol=1e-9 * (1 + (a / Vm2 ** 2) / (R * T / (Vm2 - b))))

    # --- dilute limit -------------------------------------------------------
    rho = P_SI / (R * T)
    B2 = b - a / (R * T)
    if gas and abs(B2) * rho < 0.01 and b * rho < 0.01:
        from pmutt.eos import IdealGasEOS
        Vi = IdealGasEOS().get_V(T=T, P=P, n=n)
        z1 = V / Vi - 1
        # gas root only: below Tc the largest root is the vapour branch
        if abs(z1 - B2 * rho) > 3 * ((B2 * rho) ** 2 + (b * rho) ** 2) + 1e-12:
            ctx.fail('C20.vdw/dilute-limit', 'Z-1=%g  B2*rho=%g' % (z1, B2 * rho))
        ctx.label('dilute')


crit_strategy = st.fixed_dictionaries({'Tc': logf(5, 1000), 'Pc': logf(1, 300),
                                       'n': logf(1e-3, 1e3), 'fa': logf(0.25, 4), 'fb': logf(0.25, 4),
                                       'edit': st.sampled_from(['a', 'b', 'ab'])})


def check_crit(case, ctx):
    from pmutt.eos import vanDerWaalsEOS
    R = _R()
    Tc, Pc, n = case['Tc'], case['Pc'], case['n']
    eos = vanDerWaalsEOS.from_critical(Tc=Tc, Pc=Pc)
    ctx.nontrivial(True)
    ctx.close('C20.crit/Tc', eos.get_Tc(), Tc, rtol=1e-12)
    ctx.close('C20.crit/Pc', eos.get_Pc(), Pc, rtol=1e-12)
    ctx.close('C20.crit/Vc', eos.get_Vc(n=n), 3 * n * eos.b, rtol=1e-14)
    ctx.close('C20.crit/Vc-default-amount', eos.get_Vc(), 3 * eos.b, rtol=1e-14)      # documented default: one mole
    # textbook a, b
    ctx.close('C20.crit/a', eos.a, 27. * (R * Tc) ** 2 / (64. * Pc * BAR), rtol=1e-12)
    ctx.close('C20.crit/b', eos.b, R * Tc / (8. * Pc * BAR), rtol=1e-12)
    # the isotherm really has its critical point there
    Vc = eos.get_Vc(n=n)
    ctx.close('C20.crit/P(Tc,Vc)', eos.get_P(T=Tc, V=Vc, n=n), Pc, rtol=1e-10)
    h = 1e-3
    Pm = eos.get_P(T=Tc, V=Vc * (1 - h), n=n)
    Pp = eos.get_P(T=Tc, V=Vc * (1 + h), n=n)
    # inflection with zero slope: P(Vc(1+-h)) - Pc = -+ O(h^3) Pc
    if not (abs(Pm - Pc) < 20 * h ** 3 * Pc and abs(Pp - Pc) < 20 * h ** 3 * Pc and Pm >= Pc >= Pp):
        ctx.fail('C20.crit/not-an-inflection', 'P(Vc-)=%r Pc=%r P(Vc+)=%r' % (Pm, Pc, Pp))
    ctx.close('C20.crit/Vm(Tc,Pc)', eos.get_Vm(T=Tc, P=Pc, gas_phase=True), 3 * eos.b, rtol=1e-3)
    # a and b are the object's public parameters: after they are reassigned the critical constants follow them
    # (the object has no other state), i.e. they equal those of a freshly built object and the textbook relations
    a2 = eos.a * (case.get('fa', 1.) if 'a' in case.get('edit', 'ab') else 1.)
    b2 = eos.b * (case.get('fb', 1.) if 'b' in case.get('edit', 'ab') else 1.)
    eos.a, eos.b = a2, b2
    fresh = vanDerWaalsEOS(a=a2, b=b2)
    ctx.label('edit:' + case.get('edit', 'ab'))
    ctx.close('C20.crit/edited:Tc', eos.get_Tc(), 8. * a2 / (27. * R * b2), rtol=1e-12)
    ctx.close('C20.crit/edited:Pc', eos.get_Pc(), a2 / (27. * b2 ** 2) / BAR, rtol=1e-12)
    ctx.close('C20.crit/edited:Vc', eos.get_Vc(n=n), 3 * n * b2, rtol=1e-14)
    ctx.close('C20.crit/edited=fresh', [eos.get_Tc(), eos.get_Pc(), eos.get_Vc(), eos.get_P(T=Tc, V=Vc, n=n)],
              [fresh.get_Tc(), fresh.get_Pc(), fresh.get_Vc(), fresh.get_P(T=Tc, V=Vc, n=n)], rtol=1e-14)
    Tc2, Pc2 = fresh.get_Tc(), fresh.get_Pc()
    ctx.close('C20.crit/edited:P(Tc,Vc)', eos.get_P(T=Tc2, V=3 * n * b2, n=n), Pc2, rtol=1e-10)


CLAUSES = [
    Clause('C20.ideal', ideal_strategy, check_ideal, 1500, 20000,
           'T 50-3000 K, P 1e-3-1e3 bar, n 1e-3-1e3 mol log-uniform; every case is non-trivial '
           '(each of V,P,T,n recovered from the other three)'),
    Clause('C20.vdw', vdw_strategy, check_vdw, 3000, 20000,
           'a,b direct (0.003-3, 1e-5-2e-4) or from_critical(Tc 5-1000, Pc 1-300); state drawn '
           'free or in reduced coordinates (incl. near-critical band) clipped to the T,P box; gas or '
           'liquid root; non-trivial = three real roots and the liquid root requested'),
    Clause('C20.crit', crit_strategy, check_crit, 500, 5000,
           'Tc 5-1000 K, Pc 1-300 bar, n; every case non-trivial'),
]

ASSUMPTIONS = ['R(J/mol/K) is taken from pmutt.constants (its value is judged by C12); 1 bar = 1e5 Pa',
               'near the critical point (|T/Tc-1|<0.02, |P/Pc-1|<0.05) root-based relations are judged at 1e-3']

add('C20', 'Hypothesis generated states + round-trip / reference-cubic (Vieta deflation) / virial-limit oracles',
    'Generated (a,b | Tc,Pc) x (T,P,n) x root states incl. sub-critical three-root and near-critical ones; each of P,V,T,n '
    'is recovered from the other three, the returned volume is verified to be the extreme real root of the cubic by an '
    'independent deflation, the first virial coefficient is checked in the dilute limit and the critical point is checked '
    'as a zero-slope inflection. Exploration only: no absence proof.',
    'Trusted: R(J/mol/K) from pmutt.constants (judged by C12), float64 arithmetic of the oracle; near-critical states judged at 1e-3.',
    'DESIGN.md 3/C20')
add('C17', 'Hypothesis model-based operation sequences (insert/pop/reload histories) vs exact integral reference model; thorough tier adds coverage-guided atheris (libFuzzer) campaigns over the same histories and invariant',
    'Generated histories of construction + up to 6 insert/pop/pop(0)/reload operations on PiecewiseCovEffect, with an invariant after every '
    'step: breakpoints ascending, (breakpoint, slope) multiset equal to the model, value at coverages on/between/beyond breakpoints at two '
    'temperatures equal to the exactly integrated reference, continuity at every breakpoint, zero S/Cv/Cp, unchanged by dict and JSON reload. '
    'Exploration only.',
    'Trusted: R(kcal/mol/K) from pmutt.constants; order among exactly coincident breakpoints is left to the library.',
    'DESIGN.md 3/C17')
add('C12', 'exhaustive enumeration of the unit tables (pairs, triples, cross-type pairs, derived relations, elements) + Hypothesis numeric arguments',
    'Every ordered pair and triple of units within each quantity type and every cross-type pair is enumerated (exhaustive for the finite tables, '
    'read from the current source), every derived/definitional relation is checked to the rounding of the literals involved, all 118 elements '
    'are checked by number vs symbol, and random numeric arguments / compositions exercise linearity. Finite part exhaustive; numeric part exploration.',
    'Trusted: literal precision is read from constants.py with ast (<=2 significant digits = exact, floor 1e-9); periodic table Z->symbol in the harness.',
    'DESIGN.md 3/C12')
add('C14', 'Hypothesis grammar-based strings + differential reference parser (exact rationals), print/parse round-trip, constructed balanced/unbalanced reactions; thorough tier adds coverage-guided atheris (libFuzzer) campaigns through hypothesis.fuzz_one_input with the same oracles',
    'Reaction strings are generated from the stated grammar (names, omitted/integer/decimal coefficients, blanks, 10 delimiter pairs, TS) and parsed by pMuTT and by an '
    'independent reference parser in exact rationals; Reaction objects are printed with every format and parsed back (also through a RING file); element balance is decided '
    'exactly in rationals on reactions constructed to balance and on perturbed ones; formulas are compared with their own token lists. Exploration only.',
    'Trusted: the reference parser/tokeniser in vf/p14.py; names never contain a delimiter; imbalances in (0,1e-6) relative are not generated.',
    'DESIGN.md 3/C14')
add('C18', 'Hypothesis generated id collections / token lists + reference range decoder (round-trip) and unwrap oracle; exhaustive small-universe sweep; thorough tier adds coverage-guided atheris (libFuzzer) campaigns with the same oracles',
    'Identifier collections (1-3 prefixes incl. delimiter-containing and empty ones, gaps, duplicates, any order, str/.id/.name, both formats) are compressed and '
    'expanded again by an independent decoder: decoded set must equal the input set; all 512 subsets of a 9-id universe are enumerated; un-encodable members must raise; '
    'wrapped CTI values are unwrapped and compared token by token with per-line width limits. Exploration (small universe exhaustive).',
    'Trusted: the decoder\'s reading of "A to B" (ids between the endpoints at the endpoint\'s digit count); tokens contain no blanks or quotes.',
    'DESIGN.md 3/C18')
add('C02', 'Hypothesis generated coefficient vectors / segment bounds / temperature sets + closed-form reference, Richardson derivative identities, array-vs-scalar metamorphic relation',
    'Generated NASA-7, NASA-9 (1-4 segments, any listing order) and Shomate (all 16 fitting units) species with physical, arbitrary-magnitude and unit-vector '
    'coefficients, evaluated at temperatures inside, on and one float next to every break: values vs closed forms typed from the definitions (upper segment at the '
    'NASA-7 break, either neighbour at NASA-9 boundaries, refusal outside), G=H-TS, dH/dT=Cp and T dS/dT=Cp by Richardson differences inside segments, and '
    'get_X(array)[i]==get_X(array[i]) for dimensionless and dimensional getters (each scalar on a fresh copy; float and integer-typed arrays), and the module-level evaluators in their documented argument form. Exploration only.',
    'Trusted: closed forms in vf/ref.py; tolerances 1e-12 / 1e-13 of the sum of |terms|; derivative stencils never straddle a break.',
    'DESIGN.md 3/C02')
add('C08', 'Hypothesis generated reactions over mixed species classes + reference sums computed from the species\' own getters (Hess), metamorphic relations (reversal, forward-reverse, Kf*Kr=1)',
    'Reactions with 1-4 reactants/products, fractional coefficients, optional TS, species of every model class and names in prefix/suffix relation, under T, P and per-species '
    'keyword blocks: every state/delta/act getter of Reaction, ChemkinReaction and SurfaceReaction is compared with the stoichiometric sum of the species\' own values computed by the '
    'harness under each species\' own conditions; reversal antisymmetry, forward-minus-reverse, ln Keq = -dG, Kf*Kr = 1, partition-function ratios in logs, EoRT, and purity of the '
    'caller\'s dictionaries. Exploration only.',
    'Trusted: each species getter (judged by C01/C02); tolerance 1e-10 of the sum of |nu X|; over/underflowing K and q cases are skipped and counted.',
    'DESIGN.md 3/C08')
add('C09', 'Hypothesis generated reactions / BEP relations / site configurations + recomputation oracles (max-clamp from unclamped getters, BEP relation typed in the harness, log-scaling of A)',
    'ChemkinReaction and SurfaceReaction activation H and G (dimensionless and in five units, both directions) are compared with max(0, TS barrier, reaction change) recomputed from a '
    'plain Reaction; BEP transition states with all 8 descriptors are compared with the relation itself, with fwd-rev = dH/dE, with the barrier obtained through the TS enthalpy and '
    'with equal U/H offsets; pre-exponential factors are checked by the entropy and partition-function routes and by site-density scaling A(s*sigma)=A(sigma)*s^(1-n) for both reaction '
    'classes, four site-density operations and four unit systems. Exploration only.',
    'Trusted: unclamped Reaction getters (C08), constants (C12); gas+bulk-only reactions (no surface reactant, not gas phase) are outside the generated domain.',
    'DESIGN.md 3/C09')
add('C19', 'Hypothesis generated reaction sets / grids / state chains + recomputation oracle (table from the reactions\' own values, column-wise minimality, extrema from the harness\'s own state list)',
    'Phase diagrams over 1-8 reactions with arbitrary normalisation and two scan variables out of T, P and per-species pressure (1-30 unsorted values, with/without energy units): '
    'every table entry is recomputed per grid point, the reported stable index must be a minimiser of its column in the 1-D and 2-D scans, shapes are checked and a 2-D scan with a '
    'singleton axis must equal the 1-D scan; energy spans of chains of 1-8 steps with optional TS are compared with max-min (+ overall dG when the highest state comes first) computed '
    'from the harness\'s own list of state Gibbs energies for Reactions.get_E_span and Network.get_E_span. Exploration only.',
    'Trusted: Reaction.get_delta_GoRT and species get_G (C08/C01); states with nearly equal G (order ambiguous) are not generated.',
    'DESIGN.md 3/C19')
add('C13', 'Hypothesis generated species x phase x attached-model lists x construction/reload histories + additive reference (bare polynomial + sum of each model\'s own value)',
    'Nasa, Nasa9 and Shomate species with 0-4 attached correction models in any order, every phase spelling, add_gas_P_adj default/True/False, scalar and array temperatures, '
    'coverages through per-species blocks, constructed directly, by from_data, deepcopy, JSON or 1-3 to_dict/from_dict cycles: reported Cp, H, S, G must equal the bare polynomial plus '
    'the sum of every attached model\'s own contribution at each temperature; exactly one pressure adjustment for gases unless disabled, none added otherwise; S(P)-S(1 bar) = -ln P. '
    'Exploration only.',
    'Trusted: PiecewiseCovEffect values (C17) and -ln P from fresh model instances; at most one user-supplied GasPressureAdj, only on gas species.',
    'DESIGN.md 3/C13')
add('C10', 'Hypothesis generated reference sets (constructed consistent / noisy, full-rank / rank-deficient) + append/pop/refit histories; oracles: reproduction, normal equations A^T r = 0, linear T-independent shift',
    'Reference sets of 1-8 species over 1-5 descriptors (elements or another descriptor dictionary) are built so that the experimental enthalpies are either exactly reachable by a '
    'composition-linear shift or perturbed by noise; after fitting (directly or through a history of append/extend/pop/remove/refit) every reference must be reproduced at the reference '
    'temperature in the consistent case, the residual must be orthogonal to the composition matrix otherwise, uniquely determined offsets must equal the hidden ones, and for arbitrary target '
    'compositions (unknown descriptors in any position) the shift of H and G must be -R T_ref sum(offset n) at every temperature, additive in composition, absent from S/Cv/Cp and exactly '
    'removed by use_references=False. Exploration only.',
    'Trusted: StatMech H/RT of the reference models (C01); exact reproduction only claimed for identical reference temperatures.',
    'DESIGN.md 3/C10')
add('C01', 'Hypothesis generated mode / species parameter sets + textbook reference formulas (own Debye quadrature), Richardson derivative identities, metamorphic relations (pressure shift, verbose additivity, rigid motions/permutations); exhaustive point-group and G2 sweeps',
    'Every mode model and every combination of modes (with references and misc models) over the stated parameter ranges: G=H-TS, F=U-TS, Cv=dU/dT, Cp=dH/dT, T dS/dT=Cp by Richardson '
    'differences, S(P2)-S(P1)=-ln(P2/P1) with ideal-gas translation, H-U = 1 or 0, verbose contributions sum/multiply to the total under all option combinations, EoRT(+ZPE), closed '
    'forms typed from the textbook for harmonic, quasi-RRHO, Einstein, Debye, rigid rotor, Sackur-Tetrode, ground-state degeneracy and LSR; cached vibrational/spin state after '
    'reassignment equals a fresh object; ExtendedLSR, ConstantMode unit convention and the documented defaults of the mode classes; all 13 point-group labels (exhaustive) and every G2 molecule under rigid motions and atom permutations. Exploration (finite sweeps exhaustive).',
    'Trusted: constants (C12), vf/ref.py formulas; Debye derivative relations judged at 1e-4; the known Debye integrand defect is recognised by its exact 9 Theta/4T signature only.',
    'DESIGN.md 3/C01')
add('C04', 'Hypothesis generated (object, getter, unit, options) tuples + metamorphic oracle: dimensional value = dimensionless value (same options) x R(unit) (x T) (/ molar mass)',
    'Mode objects, StatMech, Nasa, Nasa9, Shomate species and Reaction / ChemkinReaction / SurfaceReaction objects are asked for every dimensional quantity (Cv, Cp, U, H, S, F, G, E and '
    'state / delta / activation forms) in every unit accepted by the gas-constant table and its per-g / per-kg forms, under pressure, coverage, S_elements, use_references, verbose, rev, '
    'act and per-species options, with scalar and array T; each value must equal the dimensionless getter called with the same options times R in that unit (times T for energies, divided '
    'by the molar mass summed by the harness for per-mass units). Exploration only.',
    'Trusted: constants.R values (C12); a KeyError from constants.R / the documented AttributeError for per-mass units where unsupported is an accepted refusal.',
    'DESIGN.md 3/C04')
add('C03', 'Hypothesis generated sources x windows x break choices + oracles: anchor / continuity from reference basis functions, exact reproduction of same-family polynomials, integral bounds on H and S tracking, differential least-squares reference for Cp',
    'NASA-7, NASA-9 (1-3 intervals) and Shomate (all fitting units) fits via from_data and from_model from StatMech species, same-family polynomials, constant-Cp and zero-Cp sources over '
    'random windows, point counts, break choices and reference temperatures: H/RT and S/R at T_ref equal the references, H and S are continuous at every interior break (evaluated with '
    'reference basis functions on each segment\'s coefficients), bounds equal the data span with breaks strictly inside, polynomial sources are reproduced to numerical precision, H and S '
    'of smooth sources stay within the rigorous integral bounds sup|dCp/R| |T-T_ref|/T and sup|dCp/R| |ln T/T_ref|, and the heat-capacity residual is within 3-5x an independent '
    'least-squares fit of the same form. Exploration only.',
    'Trusted: vf/ref.py basis functions, StatMech Cp/H/S (C01); reference least squares uses the library\'s own split/weighting; NASA-9 intervals keep >= 9 data points.',
    'DESIGN.md 3/C03')
add('C05', 'Hypothesis generated species collections with adversarial names + write/read round-trip and an independent fixed-column reference parser of the Chemkin thermo card; thorough tier adds a coverage-guided atheris (libFuzzer) campaign with the same oracles',
    'Collections of 1-40 NASA-7 species with names containing END / THERMO, leading digits, 15 printable characters, 1-4 elements with two-letter symbols and counts up to 999 (also as '
    'integral floats, zero counts), any one-character phase, temperatures up to 9999.9 K and coefficients 0 or 1e-30..1e30 are written (file or string, list or dict, date/notes, '
    'comment block, supplementary data) and (a) parsed by a reference fixed-column reader - 80 columns, record number in column 80, five 15-character fields, composition in columns '
    '25-44, phase in column 45 - and (b) read back with read_thermdat in every format: same number, order, names, phases, element counts, temperatures to 0.05 K and all 14 coefficients '
    'to 9 significant digits; any raise or changed count is a failure. Exploration only.',
    'Trusted: the reference card parser in vf/p05.py; names without blanks and not starting with "!".',
    'DESIGN.md 3/C05')
add('C11', 'Hypothesis generated objects of every serialisable class + encode/decode round-trip judged by an independent structural snapshot (class, constructor attributes recursively, getter values), idempotence and purity checks; failures bucketed per (class, attribute)',
    'One generator per class (all mode models, ConstantMode, LSR, StatMech with references/misc models, Nasa, Nasa9, SingleNasa9, Shomate, Reference(s), GasPressureAdj, PiecewiseCovEffect, '
    'CatSite, both BEP classes, Reaction, ChemkinReaction, SurfaceReaction, Reactions, PhaseDiagram, equations of state) with optional attributes set or not and nested species; after 1-3 '
    'encode/decode cycles the object must be of the same class, carry the same constructor-parameter attributes (compared recursively by the harness, never through __eq__/to_dict) and return '
    'the same getter values at two (T,P,x) points; re-encoding must be idempotent; json_to_pmutt must leave its input dictionary unchanged and be repeatable. Exploration only.',
    'Trusted: the snapshot function of vf/p11.py (constructor signature + a fixed list of identifying attributes).',
    'DESIGN.md 3/C11')
add('C16', 'Hypothesis generated species networks / feeds / conditions + validity predicates on the returned composition (atom balance, KKT/affinity residual, Gibbs energy vs an independent element-potential Newton minimiser), metamorphic relations (species order, reuse of the object)',
    'Networks of 2-12 gas species over 1-4 elements with NASA-7 thermodynamics tuned to drawn G/RT values (span up to 60), arbitrary non-negative feeds, T 300-2500 K, P 0.01-100 atm, models '
    'given as list, dict or thermdat file: a result returned without warning/exception must conserve every element to 1e-7, have non-negative moles and mole fractions summing to one, leave no '
    'reaction affinity among non-trace species (sum 1/2 x r^2 <= 1e-5 with x-weighted least-squares element potentials), have a Gibbs energy not above an independent reference minimiser '
    '(dual Newton iteration converged to 1e-12), agree for permuted / reversed / rotated species listings, and a second call on the same object at other conditions must equal a fresh '
    'object. Exploration only.',
    'Trusted: the reference minimiser of vf/p16.py (cases where it does not converge are excluded and counted); tolerances express the solver tolerance through its second-order effect on G (1e-5 per mole).',
    'DESIGN.md 3/C16')
add('C15', 'Hypothesis generated workbooks (grid of headers and cells written with openpyxl) + reference mapping from the generated grid to the expected records; second read with reordered rows in the same process',
    'Worksheets with 1-60 data rows, an optional comment row, any sheet name and a random subset and order of ordinary and special columns (element.X, formula, repeated vib_wavenumber / '
    'rot_temperature, list.name[.i], dict.name.key, nasa.a_low/a_high.i, statmech_model presets, per-mode model class names), padded headers and string cells, numeric / string / empty cells '
    'with empty-cell probability up to 0.8: read_excel must return one record per row in row order whose keys and values are exactly what a reference mapping computes from the generated grid '
    '(walking the columns in sheet order), also when the same rows are read again in reversed order in the same process (no value leaks between rows or calls). Exploration only.',
    'Trusted: pandas/openpyxl cell semantics (cells they treat as missing or re-type are not generated / compared numerically); the presets table as data.',
    'DESIGN.md 3/C15')
add('C06', 'Hypothesis generated mechanisms (sites, species, reactions, run conditions, writer options) + reference parsers of the written files, recomputation of every printed number, read-back with read_reactions; thorough tier adds coverage-guided atheris (libFuzzer) campaigns over the same mechanisms and oracles',
    'Mechanisms with 1-3 catalyst sites (shared or distinct bulk), gas species, adsorbates with occupancies, vacancy and bulk species and 1-10 reactions (adsorption with sticking coefficient, '
    'surface steps with/without TS, gas reactions) are written with every activation-method name, energy unit, site-density operation, MW flag, float format and delimiter pair; gas.inp, '
    'surf.inp, EAs.inp, EAg.inp, T_flow.inp and tube_mole.inp are parsed by keyword/slash-based reference parsers: every element, species, site, adsorbate (with occupancy), bulk species and '
    'reaction must appear exactly once in the file where it belongs, declared counts must equal the rows that follow, every printed number must equal the model value in the writer\'s own '
    'format (and, where no activation entropy enters, the documented kB/h/sigma^(n-1) computed by the harness), and read_reactions must return the model\'s species and integer '
    'stoichiometry. Exploration only.',
    'Trusted: the model getters for A/Ea (C09), the reference parsers of vf/p06.py; reactions are site-conserving (no gas-only reactants with surface/bulk products).',
    'DESIGN.md 3/C06')
add('C07', 'Hypothesis generated models / reactor option sets / phase-edit histories + oracles: yaml.safe_load and ast + recording CTI stubs (well-formedness), content comparison against the objects, model-based species lists',
    'Four generators: (0) species that only carry a phase name, reactions and interactions handed to organize_phases, whose result must list exactly the declared members; (1) histories of species additions and removals on 1-4 coexisting phase objects (some default-constructed) checked against a dict model after every step; (2) reactor '
    'option sets in which every dimensional and plain option is independently omitted or given as Python / NumPy number or "value unit" string, with units given or None, whose loaded YAML '
    'must contain exactly the supplied options with value and unit; (3) whole models (gas, optional bulk, 1-2 interfaces, NASA-7/NASA-9/Shomate species with occupancies, reactions with '
    'explicit TS / BEP / none and user, automatic or mixed ids, BEPs, lateral interactions, random unit system, T, P, Motz-Wise) whose thermo YAML must load and whose CTI must parse and '
    'execute against recording stubs of the CTI directives, both carrying each species, reaction (unique id, equation, A/b/Ea in the requested units), phase (species, elements, site '
    'density, decoded reaction / interaction ranges), BEP and interaction exactly as the objects say. Exploration only.',
    'Trusted: PyYAML, the recording stubs (argument counts of NASA/NASA9/Shomate), model getters for rate parameters (C09); Cantera itself is not available offline.',
    'DESIGN.md 3/C07')

add('C20', 'Hypothesis generated states + round-trip / reference-cubic (Vieta deflation) / virial-limit oracles',
    'Generated (a,b | Tc,Pc) x (T,P,n) x root states incl. sub-critical three-root and near-critical ones; each of P,V,T,n '
    'is recovered from the other three, the returned volume is verified to be the extreme real root of the cubic by an '
    'independent deflation, the first virial coefficient is checked in the dilute limit and the critical point is checked '
    'as a zero-slope inflection. Exploration only: no absence proof.',
    'Trusted: R(J/mol/K) from pmutt.constants (judged by C12), float64 arithmetic of the oracle; near-critical states judged at 1e-3.',
    'DESIGN.md 3/C20')

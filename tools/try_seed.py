#!/venv/bin/python
"""tools/try_seed.py <PID> <dir with patch.diff [demo.py]> [quick|thorough]

Applies a seeded change to a scratch worktree of /repo HEAD (never to /repo),
runs the demo before/after, the pinned test-suite and ./check <PID> <tier>
against the scratch tree, prints a JSON summary, removes the worktree.
"""
import json, os, shutil, subprocess, sys, tempfile

def sh(cmd, **kw):
    p = subprocess.run(cmd, shell=True, capture_output=True, text=True, **kw)
    return p.returncode, (p.stdout + p.stderr)

pid, d = sys.argv[1], os.path.abspath(sys.argv[2])
tier = sys.argv[3] if len(sys.argv) > 3 else 'quick'
run_tests = os.environ.get('SEED_TESTS', '1') == '1'
wt = tempfile.mkdtemp(prefix='vfseed-%s-' % pid)
out = tempfile.mkdtemp(prefix='vfseedout-')
os.rmdir(wt)
res = {'property': pid, 'dir': d, 'tier': tier}
try:
    rc, o = sh('git -C /repo worktree add -q --detach %s HEAD' % wt)
    assert rc == 0, o
    env = dict(os.environ, PYTHONPATH=wt, MPLBACKEND='Agg')
    demo = os.path.join(d, 'demo.py')
    if os.path.exists(demo):
        rc, o = sh('cd %s && timeout 600 /venv/bin/python %s' % (wt, demo), env=env)
        res['demo_clean_rc'] = rc
        if rc != 0:
            res['demo_clean_out'] = o[-800:]
    rc, o = sh('git -C %s apply %s' % (wt, os.path.join(d, 'patch.diff')))
    if rc != 0:
        rc, o = sh('git -C %s apply -3 %s' % (wt, os.path.join(d, 'patch.diff')))
    res['apply_rc'] = rc
    if rc != 0:
        res['apply_out'] = o[-500:]
    else:
        if os.path.exists(demo):
            rc, o = sh('cd %s && timeout 600 /venv/bin/python %s' % (wt, demo), env=env)
            res['demo_patched_rc'] = rc
            res['demo_patched_tail'] = o.strip().splitlines()[-1:] if o.strip() else []
        if run_tests:
            rc, o = sh('cd %s && timeout 900 /venv/bin/python -m pytest -q -p no:cacheprovider --timeout=900 pmutt 2>&1 | tail -1' % wt, env=env)
            res['tests'] = o.strip()
        env2 = dict(os.environ, VERIF_REPO=wt, VERIF_OUT=out)
        rc, o = sh('cd /verif && timeout 3000 ./check %s %s' % (pid, tier), env=env2)
        res['check_rc'] = rc
        res['check_lines'] = [l for l in o.splitlines() if 'VIOLATION' in l or 'HARNESS' in l or l.startswith('  C')][:12]
        res['check_tail'] = o.strip().splitlines()[-1:]
finally:
    sh('git -C /repo worktree remove --force %s' % wt)
    shutil.rmtree(wt, ignore_errors=True)
    shutil.rmtree(out, ignore_errors=True)
ok = (res.get('demo_clean_rc') == 0 and res.get('demo_patched_rc', 0) != 0
      and '253 passed' in res.get('tests', '') and ' 6 failed' in ' ' + res.get('tests', ''))
res['valid_seed'] = ok
res['caught'] = res.get('check_rc') == 1
if os.environ.get('SEED_KEEP') and ok:
    name = os.environ['SEED_KEEP']
    dst = os.path.join('/verif/seeded', name)
    os.makedirs(dst, exist_ok=True)
    for fn in ('patch.diff', 'demo.py'):
        shutil.copy(os.path.join(d, fn), os.path.join(dst, fn))
    meta = {}
    mp_ = os.path.join(d, 'meta.json')
    if os.path.exists(mp_):
        try:
            meta = json.load(open(mp_))
        except Exception:
            meta = {'raw': open(mp_).read()}
    head = sh('git -C /repo rev-parse --short HEAD')[1].strip()
    meta['confirmed'] = {'repo_head': head, 'demo_on_clean_rc': res.get('demo_clean_rc'),
                         'demo_on_patched_rc': res.get('demo_patched_rc'), 'test_suite': res.get('tests'),
                         'check_cmd': './check %s %s (VERIF_REPO=<scratch worktree with patch>)' % (pid, tier),
                         'check_rc': res.get('check_rc'), 'caught': res['caught'],
                         'violations': res.get('check_lines', [])[:6]}
    json.dump(meta, open(os.path.join(dst, 'meta.json'), 'w'), indent=1)
print(json.dumps(res, indent=1))

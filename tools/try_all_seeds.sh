#!/bin/sh
# tools/try_all_seeds.sh <srcdir> <suffix>   e.g. /tmp/seeded2 2  -> keeps valid seeds as seeded/C05a2 ... prints one line each
SRC=$1; SUF=$2
cd "$(dirname "$0")/.." || exit 2
for d in $SRC/C*/; do
  P=$(basename $d)
  for x in a b c; do
    [ -f $d/$x/patch.diff ] || continue
    mkdir -p seeded/_candidates/$P$x$SUF; cp $d/$x/patch.diff $d/$x/demo.py $d/$x/meta.json seeded/_candidates/$P$x$SUF/ 2>/dev/null
    R=$(SEED_KEEP=$P$x$SUF tools/try_seed.py $P seeded/_candidates/$P$x$SUF 2>&1)
    V=$(echo "$R" | grep '"valid_seed"' | tr -d ' ,'); C=$(echo "$R" | grep '"caught"' | tr -d ' ,'); A=$(echo "$R" | grep '"apply_rc"' | tr -d ' ,')
    echo "$P$x$SUF $A $V $C :: $(echo "$R" | grep '^  "  C' | head -1 | cut -c1-140)"
  done
done

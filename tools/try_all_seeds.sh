#!/bin/sh
# tools/try_all_seeds.sh <srcdir> <suffix> [PIDs...]   e.g. /tmp/seeded2 2 C05 C06 -> keeps valid seeds as seeded/C05a2 ...
# prints one line per seed; runs SEED_JOBS (default 4) seeds at a time, each in its own scratch worktree
SRC=$1; SUF=$2; shift 2
cd "$(dirname "$0")/.." || exit 2
[ $# -gt 0 ] || set -- $(cd $SRC && ls -d C??)
one() {
  P=$1; x=$2
  d=$SRC/$P
  [ -f $d/$x/patch.diff ] || return 0
  mkdir -p seeded/_candidates/$P$x$SUF; cp $d/$x/patch.diff $d/$x/demo.py $d/$x/meta.json seeded/_candidates/$P$x$SUF/ 2>/dev/null
  R=$(SEED_KEEP=$P$x$SUF VERIF_NPROC=4 tools/try_seed.py $P seeded/_candidates/$P$x$SUF 2>&1)
  V=$(echo "$R" | grep '"valid_seed"' | tr -d ' ,'); C=$(echo "$R" | grep '"caught"' | tr -d ' ,'); A=$(echo "$R" | grep '"apply_rc"' | tr -d ' ,')
  echo "$P$x$SUF $A $V $C :: $(echo "$R" | grep '^  "  C' | head -1 | cut -c1-140)"
}
if [ "$1" = "--one" ]; then SRC=$SRC; one $2 $3; exit 0; fi
for P in "$@"; do for x in a b c; do echo "$P $x"; done; done | xargs -P ${SEED_JOBS:-4} -L 1 sh -c "$0 $SRC $SUF --one \$0 \$1"

#!/bin/sh
# tools/try_mutant.sh <mutdir>/<id> <PID> [tier]  - apply one mutate.py mutant to a scratch worktree and run one check
D=$(cd "$1" && pwd); P=$2; T=${3:-quick}
cd "$(dirname "$0")/.." || exit 2
W=$(mktemp -d /tmp/mutone-XXXXXX); rmdir $W; O=$(mktemp -d /tmp/mutoneout-XXXXXX)
git -C /repo worktree add -q --detach $W HEAD && git -C $W apply -p1 $D/patch.diff || { echo apply failed; exit 2; }
VERIF_REPO=$W VERIF_OUT=$O ./check $P $T 2>&1 | grep -v "^KNOWN" | tail -${TAIL:-3} | cut -c1-300
git -C /repo worktree remove --force $W; rm -rf $O

#!/venv/bin/python
"""Systematic sensitivity measurement: AST-level mutants of the anchored files.

  tools/mutate.py gen  <dir> [--per-file N] [--seed S] [--files f1,f2]   write <dir>/<id>/{patch.diff,meta.json}
  tools/mutate.py run  <dir> [--jobs J]                                  -> <dir>/results.jsonl
  tools/mutate.py report <dir>

A mutant is one token-level edit (arithmetic / comparison / boolean operator swapped, numeric constant changed,
keyword argument dropped, `not` removed, slice bound shifted) in a file named by some property's anchors.  `run`
applies each to a scratch worktree of /repo HEAD (never to /repo), keeps only those on which the pinned test-suite
still reports exactly the baseline (253 passed / 6 failed) and runs the quick tier of every property anchored on the
file until one reports a violation.  Survivors of both are listed by `report` for triage (equivalent mutant,
outside every listed property, or a real gap).
"""
import ast, json, os, random, shutil, subprocess, sys, tempfile
from concurrent.futures import ThreadPoolExecutor

REPO = '/repo'
VERIF = os.path.dirname(os.path.dirname(os.path.abspath(__file__)))
BASE = ('253 passed', '6 failed')


def sh(cmd, **kw):
    p = subprocess.run(cmd, shell=True, capture_output=True, text=True, **kw)
    return p.returncode, p.stdout + p.stderr


def anchors():
    m = {}
    for l in open(os.path.join(VERIF, 'properties.jsonl')):
        d = json.loads(l)
        for f in d['anchors']['files']:
            m.setdefault(f, []).append(d['id'])
    return m


BIN = {ast.Add: '-', ast.Sub: '+', ast.Mult: '/', ast.Div: '*', ast.Pow: '*'}
CMP = {ast.Lt: '<=', ast.LtE: '<', ast.Gt: '>=', ast.GtE: '>', ast.Eq: '!=', ast.NotEq: '=='}


def candidates(src):
    """-> list of (lineno, col, end_col, replacement, description); single-line edits only"""
    tree = ast.parse(src)
    lines = src.split('\n')
    out = []

    def between(a, b):
        # text between two nodes on one line (operator token)
        if a.end_lineno != b.lineno:
            return None
        return a.end_lineno, a.end_col_offset, b.col_offset

    for node in ast.walk(tree):
        if isinstance(node, ast.BinOp) and type(node.op) in BIN:
            if isinstance(node.left, ast.Constant) and isinstance(node.left.value, str):
                continue
            if isinstance(node.op, (ast.Mod,)):
                continue
            pos = between(node.left, node.right)
            if pos:
                ln, c0, c1 = pos
                seg = lines[ln - 1][c0:c1]
                tok = {ast.Add: '+', ast.Sub: '-', ast.Mult: '*', ast.Div: '/', ast.Pow: '**'}[type(node.op)]
                if seg.count(tok) == 1 and seg.strip(' ()') == tok:
                    out.append((ln, c0, c1, seg.replace(tok, BIN[type(node.op)]), 'binop %s -> %s' % (tok, BIN[type(node.op)])))
        elif isinstance(node, ast.Compare) and len(node.ops) == 1 and type(node.ops[0]) in CMP:
            pos = between(node.left, node.comparators[0])
            if pos:
                ln, c0, c1 = pos
                seg = lines[ln - 1][c0:c1]
                tok = {ast.Lt: '<', ast.LtE: '<=', ast.Gt: '>', ast.GtE: '>=', ast.Eq: '==', ast.NotEq: '!='}[type(node.ops[0])]
                if seg.strip(' ()') == tok:
                    out.append((ln, c0, c1, seg.replace(tok, CMP[type(node.ops[0])]), 'compare %s -> %s' % (tok, CMP[type(node.ops[0])])))
        elif isinstance(node, ast.BoolOp) and len(node.values) == 2:
            pos = between(node.values[0], node.values[1])
            if pos:
                ln, c0, c1 = pos
                seg = lines[ln - 1][c0:c1]
                tok = 'and' if isinstance(node.op, ast.And) else 'or'
                if seg.strip(' ()') == tok:
                    out.append((ln, c0, c1, seg.replace(tok, 'or' if tok == 'and' else 'and'), 'boolop %s swapped' % tok))
        elif isinstance(node, ast.UnaryOp) and isinstance(node.op, ast.Not) and node.lineno == node.operand.lineno:
            out.append((node.lineno, node.col_offset, node.operand.col_offset, '', 'not removed'))
        elif isinstance(node, ast.UnaryOp) and isinstance(node.op, ast.USub) and node.lineno == node.operand.lineno \
                and not isinstance(node.operand, ast.Constant):
            out.append((node.lineno, node.col_offset, node.operand.col_offset, '', 'unary minus removed'))
        elif isinstance(node, ast.Constant) and isinstance(node.value, (int, float)) and not isinstance(node.value, bool) \
                and node.lineno == node.end_lineno:
            v = node.value
            txt = lines[node.lineno - 1][node.col_offset:node.end_col_offset]
            if isinstance(v, int):
                new = str(v + 1)
            else:
                new = repr(v * 2.0) if v != 0 else '1.0'
            if txt and txt[0].isdigit() or txt.startswith('.'):
                out.append((node.lineno, node.col_offset, node.end_col_offset, new, 'constant %s -> %s' % (txt, new)))
        elif isinstance(node, ast.Call):
            for kw in node.keywords:
                if kw.arg is None or kw.value.lineno != kw.value.end_lineno:
                    continue
                ln = kw.value.lineno
                line = lines[ln - 1]
                # locate "name=value" on this line, with its trailing or leading comma
                start = line.rfind(kw.arg, 0, kw.value.col_offset)
                if start < 0 or line[start + len(kw.arg):kw.value.col_offset].strip() != '=':
                    continue
                end = kw.value.end_col_offset
                rest = line[end:]
                if rest.lstrip().startswith(','):
                    end += len(rest) - len(rest.lstrip()) + 1
                    out.append((ln, start, end, '', 'keyword %s= dropped' % kw.arg))
                elif line[:start].rstrip().endswith(','):
                    s2 = len(line[:start].rstrip()) - 1
                    out.append((ln, s2, end, '', 'keyword %s= dropped' % kw.arg))
    return out


def in_docstring_lines(src):
    bad = set()
    tree = ast.parse(src)
    for node in ast.walk(tree):
        if isinstance(node, ast.Expr) and isinstance(node.value, ast.Constant) and isinstance(node.value.value, str):
            bad.update(range(node.lineno, node.end_lineno + 1))
    return bad


def gen(outdir, per_file, seed, files=None):
    rng = random.Random(seed)
    amap = anchors()
    os.makedirs(outdir, exist_ok=True)
    n = 0
    for f in sorted(amap):
        if files and f not in files:
            continue
        path = os.path.join(REPO, f)
        if not os.path.exists(path):
            continue
        src = subprocess.run('git -C %s show HEAD:%s' % (REPO, f), shell=True, capture_output=True, text=True).stdout
        bad = in_docstring_lines(src)
        cands = [c for c in candidates(src) if c[0] not in bad]
        # spread over kinds: shuffle then take, but cap constants (they dominate tables)
        rng.shuffle(cands)
        picked, nconst = [], 0
        for c in cands:
            if c[4].startswith('constant'):
                if nconst >= max(2, per_file // 5):
                    continue
                nconst += 1
            picked.append(c)
            if len(picked) >= per_file:
                break
        lines = src.split('\n')
        for (ln, c0, c1, rep, desc) in picked:
            new = list(lines)
            new[ln - 1] = lines[ln - 1][:c0] + rep + lines[ln - 1][c1:]
            try:
                ast.parse('\n'.join(new))
            except SyntaxError:
                continue
            mid = 'm%04d' % n
            n += 1
            d = os.path.join(outdir, mid)
            os.makedirs(d, exist_ok=True)
            with tempfile.TemporaryDirectory() as td:
                a, b = os.path.join(td, 'a'), os.path.join(td, 'b')
                os.makedirs(os.path.join(a, os.path.dirname(f)))
                os.makedirs(os.path.join(b, os.path.dirname(f)))
                open(os.path.join(a, f), 'w').write(src)
                open(os.path.join(b, f), 'w').write('\n'.join(new))
                rc, diff = sh('cd %s && diff -u a/%s b/%s' % (td, f, f))
            open(os.path.join(d, 'patch.diff'), 'w').write(diff)
            json.dump({'id': mid, 'file': f, 'line': ln, 'op': desc, 'before': lines[ln - 1].strip(),
                       'after': new[ln - 1].strip(), 'properties': amap[f]}, open(os.path.join(d, 'meta.json'), 'w'), indent=1)
    print('%d mutants in %s' % (n, outdir))


def run_one(args):
    d, wt, nproc = args
    meta = json.load(open(os.path.join(d, 'meta.json')))
    res = dict(meta)
    try:
        rc, o = sh('git -C %s checkout -q -- . && git -C %s apply -p1 %s' % (wt, wt, os.path.join(d, 'patch.diff')))
        if rc != 0:
            res['status'] = 'apply-failed'
            res['out'] = o[-300:]
            return res
        env = dict(os.environ, PYTHONPATH=wt, MPLBACKEND='Agg', PYTHONDONTWRITEBYTECODE='1')
        rc, o = sh('cd %s && timeout 900 /venv/bin/python -m pytest -q -p no:cacheprovider pmutt 2>&1 | tail -1' % wt, env=env)
        res['tests'] = o.strip()[-120:]
        if not all(b in res['tests'] for b in BASE):
            res['status'] = 'killed-by-tests'
            return res
        out = tempfile.mkdtemp(prefix='mutout-')
        try:
            res['checks'] = {}
            res['status'] = 'survived'
            for pid in meta['properties']:
                env2 = dict(os.environ, VERIF_REPO=wt, VERIF_OUT=out, VERIF_NPROC=str(nproc))
                rc, o = sh('cd %s && timeout 1800 ./check %s quick' % (VERIF, pid), env=env2)
                res['checks'][pid] = rc
                if rc == 1:
                    res['status'] = 'killed-by-check'
                    res['by'] = pid
                    res['line_out'] = [l for l in o.splitlines() if l.startswith('  C')][:2]
                    break
                if rc not in (0, 1):
                    res['status'] = 'harness-error'
                    res['by'] = pid
                    res['line_out'] = o.strip().splitlines()[-3:]
                    break
        finally:
            shutil.rmtree(out, ignore_errors=True)
    finally:
        sh('git -C %s checkout -q -- .' % wt)
    return res


def run(outdir, jobs):
    done = set()
    rp = os.path.join(outdir, 'results.jsonl')
    if os.path.exists(rp):
        for l in open(rp):
            done.add(json.loads(l)['id'])
    todo = sorted(d for d in os.listdir(outdir) if (d.startswith('m') or d.startswith('b2_m')) and d not in done
                  and os.path.isdir(os.path.join(outdir, d)))
    wts = []
    for k in range(jobs):
        wt = tempfile.mkdtemp(prefix='mutwt-%d-' % k)
        os.rmdir(wt)
        rc, o = sh('git -C %s worktree add -q --detach %s HEAD' % (REPO, wt))
        assert rc == 0, o
        wts.append(wt)
    nproc = max(2, 16 // jobs)
    try:
        import queue
        q = queue.Queue()
        for wt in wts:
            q.put(wt)

        def work(mid):
            wt = q.get()
            try:
                r = run_one((os.path.join(outdir, mid), wt, nproc))
            except Exception as e:
                r = {'id': mid, 'status': 'tool-error', 'out': repr(e)}
            finally:
                q.put(wt)
            with open(rp, 'a') as fh:
                fh.write(json.dumps(r) + '\n')
            print(r['id'], r.get('file'), r.get('line'), r.get('op'), '->', r['status'], r.get('by', ''), flush=True)
            return r
        with ThreadPoolExecutor(max_workers=jobs) as ex:
            list(ex.map(work, todo))
    finally:
        for wt in wts:
            sh('git -C %s worktree remove --force %s' % (REPO, wt))
            shutil.rmtree(wt, ignore_errors=True)
        sh('git -C %s worktree prune' % REPO)


def report(outdir):
    rs = [json.loads(l) for l in open(os.path.join(outdir, 'results.jsonl'))]
    from collections import Counter
    c = Counter(r['status'] for r in rs)
    print(dict(c))
    byfile = {}
    for r in rs:
        if r['status'] in ('survived', 'killed-by-check', 'harness-error'):
            byfile.setdefault(r['file'], Counter())[r['status']] += 1
    for f, cc in sorted(byfile.items()):
        print('%-40s %s' % (f, dict(cc)))
    print('\nsurvivors / harness errors:')
    for r in rs:
        if r['status'] in ('survived', 'harness-error'):
            print('%s %s:%d [%s] %s\n      - %s\n      + %s  %s' % (r['id'], r['file'], r['line'], r['status'], r['op'], r['before'], r['after'],
                                                                  r.get('line_out', '')))


if __name__ == '__main__':
    cmd, outdir = sys.argv[1], sys.argv[2]
    opts = dict(zip(sys.argv[3::2], sys.argv[4::2]))
    if cmd == 'gen':
        gen(outdir, int(opts.get('--per-file', 12)), int(opts.get('--seed', 1)),
            set(opts['--files'].split(',')) if '--files' in opts else None)
    elif cmd == 'run':
        run(outdir, int(opts.get('--jobs', 4)))
    else:
        report(outdir)

#!/bin/sh
# runs every one-line mutation of tools/mutants.txt against the quick tier of its property; prints CAUGHT / MISSED / NOCHANGE
cd "$(dirname "$0")/.." || exit 2
grep -v '^#' tools/mutants.txt | while IFS='|' read -r PID F EXPR; do
  [ -z "$PID" ] && continue
  OUT=$(tools/try_sed.sh "$PID" "$F" "$EXPR" 2>&1)
  if echo "$OUT" | grep -q "DID NOT CHANGE"; then R=NOCHANGE
  elif echo "$OUT" | grep -q "^  C[0-9][0-9]\.\|[1-9][0-9]* violation"; then R=CAUGHT
  else R=MISSED; fi
  echo "$R $PID $F :: $(echo "$OUT" | grep '^+' | head -1 | cut -c1-100)"
done

#!/bin/sh
# tools/try_sed.sh <PID> <file relative to repo> <sed expression> [tier]
# applies a one-line mutation to a scratch worktree of /repo HEAD and runs ./check against it
PID=$1; F=$2; EXPR=$3; TIER=${4:-quick}
W=$(mktemp -d /tmp/vfmut.XXXXXX); rmdir $W
git -C /repo worktree add -q --detach $W HEAD || exit 2
sed -i "$EXPR" $W/$F
if git -C $W diff --quiet; then echo "MUTATION DID NOT CHANGE ANYTHING"; fi
git -C $W diff | grep '^[-+][^-+]' | head -6
OUT=$(mktemp -d /tmp/vfmutout.XXXXXX)
VERIF_REPO=$W VERIF_OUT=$OUT ./check $PID $TIER | grep -v "^KNOWN" | grep "^  C\|violation" | head -8
git -C /repo worktree remove --force $W; rm -rf $OUT $W

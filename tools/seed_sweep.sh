#!/bin/sh
# tools/seed_sweep.sh <first> <last> [tier]  - every registered check at VERIF_SEED=first..last on the unchanged tree;
# evidence goes to a scratch directory; prints one line per (property, seed) that is not quiet
cd "$(dirname "$0")/.." || exit 2
T=${3:-quick}
OUT=$(mktemp -d /tmp/sweep-XXXXXX)
for s in $(seq $1 $2); do
  for p in $(seq -w 1 20); do
    R=$(VERIF_SEED=$s VERIF_OUT=$OUT ./check C$p $T 2>&1); rc=$?
    if [ $rc -ne 0 ] || echo "$R" | grep -q VIOLATION; then
      echo "NOT QUIET C$p seed=$s rc=$rc"; echo "$R" | grep -v "^KNOWN" | tail -4 | cut -c1-400
      mkdir -p replays/sweep; cp $OUT/replays/C$p-* replays/sweep/ 2>/dev/null
    fi
  done
  echo "seed $s done"
done
rm -rf $OUT

"""Regenerates MANIFEST.json from the table below (keeps it valid at all times)."""
import json, os
HERE = os.path.dirname(os.path.abspath(__file__))
BASE = ("cd /repo && /venv/bin/python -m pytest -ra -q -p no:cacheprovider --timeout=900 "
        "--continue-on-collection-errors pmutt")
# pid -> (technique, level text, level note, design ref)
CHECKS = {}
NA = {}
def add(pid, technique, text, note, ref):
    CHECKS[pid] = (technique, text, note, ref)

exec(open(os.path.join(HERE, 'manifest_table.py')).read())

props = [json.loads(l)['id'] for l in open(os.path.join(HERE, 'properties.jsonl'))]
checks = []
for pid in props:
    if pid not in CHECKS:
        NA.setdefault(pid, 'check not built yet (work in progress); see DESIGN.md section 3')
        continue
    technique, text, note, ref = CHECKS[pid]
    checks.append({
        'property_id': pid,
        'quick_cmd': './check %s quick' % pid,
        'thorough_cmd': './check %s thorough' % pid,
        'evidence_file': 'evidence/%s.json' % pid,
        'replay_cmd_template': './check %s --replay {path}' % pid,
        'engine': 'vf',
        'level_claimed': {'category': 'exploration', 'text': text, 'design_ref': ref},
        'level_note': note,
        'technique': technique,
    })
m = {
    'version': 1,
    'setup_cmd': './setup.sh',
    'hooks': {'guard': 'PMUTT_VERIF', 'enable': 'no hooks are needed: every property is observable through public return values and written files; checks import pmutt from the /repo working tree via PYTHONPATH',
              'baseline_off_cmd': BASE, 'source_commits': [], 'add_only': True},
    'engines': [{'name': 'vf', 'path': 'vf/', 'serves_properties': sorted(CHECKS),
                 'kind_free_text': 'Hypothesis-driven case-descriptor generators + explicit oracles (reference models, round-trips, metamorphic relations), collect-then-shrink by root-cause signature, committed known-findings file, saved-input replay tier'}],
    'checks': checks,
    'not_applicable': [{'property_id': p, 'reason': r} for p, r in sorted(NA.items())],
    'notes': 'All checks: ./check <PID> quick|thorough|--replay <file>; exit 0/1/2 (2 = harness error). VERIF_SEED honoured.',
}
json.dump(m, open(os.path.join(HERE, 'MANIFEST.json'), 'w'), indent=1)
print('checks:', len(checks), 'not_applicable:', len(m['not_applicable']))

#!/bin/sh
# Offline, idempotent.  hypothesis is normally already in /venv; atheris goes to /verif/.deps.
cd "$(dirname "$0")" || exit 1
/venv/bin/python -c "import hypothesis" 2>/dev/null || \
  /venv/bin/pip install -q --no-index --find-links /opt/veriftools/wheels hypothesis || exit 1
if [ ! -d .deps/atheris ]; then
  /venv/bin/pip install -q --no-index --find-links /opt/veriftools/wheels --target .deps atheris \
    || echo "atheris not installable: fuzz tiers fall back to Hypothesis only"
fi
mkdir -p evidence replays
exit 0
